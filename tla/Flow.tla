------------------------------- MODULE Flow -------------------------------
(***************************************************************************)
(* C05: the step chain that commands.go: parse wires up while descending,  *)
(* and internal/flow: Step.Run / callDo, as a machine with an explicit     *)
(* call stack (one action per statement group of Run/callDo).              *)
(* Levels 0..D (0 = the app, D = the addressed command).  The outcome of   *)
(* every hook (absent, returns, panics with a value, calls Exit(n)) is     *)
(* chosen in Init, so TLC explores every fault vector.  Beside the machine *)
(* the property is stated in closed form (ExpectedLog, ExpectedFin) and    *)
(* checked as an invariant; every finished behaviour is printed            *)
(* ("FLOW {json}") and replayed on the real library.                       *)
(***************************************************************************)
EXTENDS Integers, Sequences, FiniteSets, TLC, Json

CONSTANTS MaxDepth,
          ExiterReturns      \* TRUE models the repository's own test double (an exit stub that returns)

\* outcome kinds of a hook
Kinds == {"absent", "returns", "panics", "exits"}

\* ---- the chain, as built by parse(): step records [do, succ, err] over step names
\* names: <<"in">>, <<"B",l>>, <<"act">>, <<"A",l>>, <<"out">>
StepB(l) == <<"B", l>>
StepA(l) == <<"A", l>>
OutOf(l) == IF l = 0 THEN <<"out">> ELSE StepA(l - 1)      \* the outFlow a level receives from its parent
Succ(D, st) ==
  CASE st = <<"in">> -> StepB(0)
    [] st[1] = "B" -> IF st[2] = D THEN <<"act">> ELSE StepB(st[2] + 1)
    [] st = <<"act">> -> StepA(D)
    [] st[1] = "A" -> OutOf(st[2])
    [] OTHER -> <<"nil">>
Err(D, st) ==
  CASE st[1] = "B" -> OutOf(st[2])          \* a failing Before skips its own level's After
    [] st = <<"act">> -> StepA(D)
    [] st[1] = "A" -> OutOf(st[2])
    [] OTHER -> <<"nil">>                   \* RootIn / RootOut have no Do and no Error

VARIABLES D, kind,     \* kind[st] \in Kinds for every hook
          stack,       \* call stack of Step.Run frames: [st, p, pc]   pc \in {"do", "next"}
          log,         \* hooks invoked, in order
          raised,      \* history: values raised so far, in order
          exits,       \* exit codes passed to the exiter, in order
          fin,         \* "running" | "returned" | <<"panic", v>> | <<"exited", n>>
          emitted
vars == <<D, kind, stack, log, raised, exits, fin, emitted>>

Hooks(d) == {StepB(l) : l \in 0..d} \cup {<<"act">>} \cup {StepA(l) : l \in 0..d}
Nil == <<"none">>
ValOf(st) == <<"val", st>>       \* the value a panicking hook raises: distinct per hook
ExitOf(st) == <<"exit", st>>     \* Exit(n) with n distinct per hook

Init == /\ D \in 0..MaxDepth
        /\ kind \in [Hooks(D) -> Kinds]
        /\ kind[<<"act">>] # "absent"
        /\ stack = <<[st |-> <<"in">>, p |-> Nil, pc |-> "do"]>>
        /\ log = <<>> /\ raised = <<>> /\ exits = <<>> /\ fin = <<"running">> /\ emitted = FALSE

Top == stack[Len(stack)]
Pop == SubSeq(stack, 1, Len(stack) - 1)
HasDo(st) == st \in Hooks(D) /\ kind[st] # "absent"

\* callDo: run the hook; on a panic hand the value to the Error step (a nested Run)
CallDo ==
  /\ fin = <<"running">> /\ stack # <<>> /\ Top.pc = "do"
  /\ LET f == Top IN
     IF ~HasDo(f.st) THEN
        /\ stack' = [stack EXCEPT ![Len(stack)].pc = "next"] /\ UNCHANGED <<log, raised>>
     ELSE
        /\ log' = Append(log, f.st)
        /\ IF kind[f.st] = "returns" THEN
              /\ stack' = [stack EXCEPT ![Len(stack)].pc = "next"] /\ UNCHANGED raised
           ELSE LET e == IF kind[f.st] = "panics" THEN ValOf(f.st) ELSE ExitOf(f.st) IN
              /\ raised' = Append(raised, e)
              \* deferred recover: s.Error.Run(e); when that returns, callDo returns normally
              /\ stack' = Append([stack EXCEPT ![Len(stack)].pc = "next"], [st |-> Err(D, f.st), p |-> e, pc |-> "do"])
  /\ UNCHANGED <<D, kind, exits, fin, emitted>>

\* the switch after callDo
Continue ==
  /\ fin = <<"running">> /\ stack # <<>> /\ Top.pc = "next"
  /\ LET f == Top s == Succ(D, f.st) IN
     IF s # <<"nil">> THEN      \* s.Success.Run(p): a call in tail position, the frame stays below
        /\ stack' = Append([stack EXCEPT ![Len(stack)].pc = "ret"], [st |-> s, p |-> f.p, pc |-> "do"])
        /\ UNCHANGED <<exits, fin>>
     ELSE IF f.p = Nil THEN
        /\ stack' = Pop /\ UNCHANGED <<exits, fin>>
     ELSE IF f.p[1] = "exit" THEN
        /\ exits' = Append(exits, f.p)
        /\ IF ExiterReturns THEN stack' = Pop /\ UNCHANGED fin
           ELSE stack' = <<>> /\ fin' = <<"exited", f.p>>
     ELSE \* panic(p): unwinds every frame; nothing on the way recovers (the recovering defers already ran)
        /\ stack' = <<>> /\ fin' = <<"panic", f.p>> /\ UNCHANGED exits
  /\ UNCHANGED <<D, kind, log, raised, emitted>>

Return ==   \* a Run call returned to its caller
  /\ fin = <<"running">> /\ stack # <<>> /\ Top.pc = "ret"
  /\ stack' = Pop
  /\ UNCHANGED <<D, kind, log, raised, exits, fin, emitted>>

Finish == /\ fin = <<"running">> /\ stack = <<>> /\ fin' = <<"returned">> /\ UNCHANGED <<D, kind, stack, log, raised, exits, emitted>>

\* hook order of the emitted vector: B0..BD, act, AD..A0
HookSeq == [i \in 1..(2 * D + 3) |-> IF i <= D + 1 THEN StepB(i - 1) ELSE IF i = D + 2 THEN <<"act">> ELSE StepA(2 * D + 3 - i)]
NameOf(st) == IF st = <<"act">> THEN "ACT" ELSE st[1] \o ToString(st[2])
Emit == /\ fin # <<"running">> /\ ~emitted /\ emitted' = TRUE
        /\ PrintT("FLOW " \o ToJson([depth |-> D, kinds |-> [i \in 1..(2 * D + 3) |-> kind[HookSeq[i]]],
                                      log |-> [i \in 1..Len(log) |-> NameOf(log[i])],
                                      fin |-> fin[1],
                                      by |-> IF fin[1] = "returned" THEN "" ELSE NameOf(fin[2][2]),
                                      exits |-> [i \in 1..Len(exits) |-> NameOf(exits[i][2])]]))
        /\ UNCHANGED <<D, kind, stack, log, raised, exits, fin>>

Next == CallDo \/ Continue \/ Return \/ Finish \/ Emit

\* deeper chains: outcome vectors sampled by the harness (flowvectors.json: sequence of [depth, kinds in hook order B0..BD, act, AD..A0])
Vectors == JsonDeserialize("flowvectors.json")
HookAt(d, i) == IF i <= d + 1 THEN StepB(i - 1) ELSE IF i = d + 2 THEN <<"act">> ELSE StepA(2 * d + 3 - i)
IndexOfHook(d, st) == CHOOSE i \in 1..(2 * d + 3) : HookAt(d, i) = st
InitFile == \E v \in DOMAIN Vectors :
              /\ D = Vectors[v].depth
              /\ kind = [st \in Hooks(Vectors[v].depth) |-> Vectors[v].kinds[IndexOfHook(Vectors[v].depth, st)]]
              /\ stack = <<[st |-> <<"in">>, p |-> Nil, pc |-> "do"]>>
              /\ log = <<>> /\ raised = <<>> /\ exits = <<>> /\ fin = <<"running">> /\ emitted = FALSE
SpecFile == InitFile /\ [][Next]_vars /\ WF_vars(Next)
Spec == Init /\ [][Next]_vars /\ WF_vars(Next)

\* ---------------------------------------------------------------- the property, stated directly (C05)
Failing(st) == kind[st] \in {"panics", "exits"}
\* first level whose Before fails, or D+1 if none
RECURSIVE FirstBadFrom(_)
FirstBadFrom(l) == IF l > D THEN D + 1 ELSE IF Failing(StepB(l)) THEN l ELSE FirstBadFrom(l + 1)
FirstBad == FirstBadFrom(0)
Completed == IF FirstBad > D THEN D ELSE FirstBad - 1      \* deepest level whose Before completed (-1: none)
RECURSIVE Up(_,_), Down(_)
Up(l, last) == IF l > last THEN <<>> ELSE (IF HasDo(StepB(l)) THEN <<StepB(l)>> ELSE <<>>) \o Up(l + 1, last)
Down(l) == IF l < 0 THEN <<>> ELSE (IF HasDo(StepA(l)) THEN <<StepA(l)>> ELSE <<>>) \o Down(l - 1)
ExpectedLog == Up(0, IF FirstBad > D THEN D ELSE FirstBad)
               \o (IF FirstBad > D THEN <<<<"act">>>> ELSE <<>>)
               \o Down(Completed)
ExpectedRaised == SelectSeq(ExpectedLog, Failing)
ExpectedFin ==
  IF ExpectedRaised = <<>> THEN <<"returned">>
  ELSE LET st == ExpectedRaised[Len(ExpectedRaised)] IN      \* the most recently raised value decides
       IF kind[st] = "exits" THEN <<"exited", ExitOf(st)>> ELSE <<"panic", ValOf(st)>>

Done == fin # <<"running">>
C05 == Done => /\ log = ExpectedLog
               /\ fin = ExpectedFin
               /\ fin[1] \in {"returned", "panic"} => exits = <<>>
               /\ fin[1] = "exited" => exits = <<fin[2]>>
AtMostOnce == \A i, j \in 1..Len(log) : i # j => log[i] # log[j]
ExitIsLast == (exits # <<>> /\ ~ExiterReturns) => Done
Terminates == <>(Done /\ emitted)
View == <<D, kind, stack, log, raised, exits, fin, emitted>>
=============================================================================
