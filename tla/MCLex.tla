---- MODULE MCLex ----
EXTENDS SpecLexer, Json
CONSTANT MaxLen
AlphabetDef == {" ", "\t", "[", "]", "(", ")", "|", ".", "-", "=", "<", ">", "A", "a", "1", "_", "#"}
RECURSIVE SeqsUpTo(_)
SeqsUpTo(n) == IF n = 0 THEN {<<>>} ELSE LET S == SeqsUpTo(n - 1) IN S \cup {Append(x, c) : x \in {y \in S : Len(y) = n - 1}, c \in AlphabetDef}
\* every string over one representative per character class, up to MaxLen
ClassStrings == SeqsUpTo(MaxLen)
\* strings recorded in a file (random whole specs, harvested specs): lexstrings.json = list of character lists
FileStrings == LET L == JsonDeserialize("lexstrings.json") IN {L[i] : i \in DOMAIN L}
====
