---- MODULE MCLex ----
EXTENDS SpecLexer, Json
CONSTANT MaxLen
AlphabetDef == {" ", "\t", "[", "]", "(", ")", "|", ".", "-", "=", "<", ">", "A", "a", "1", "_", "#"}
RECURSIVE SeqsUpTo(_)
SeqsUpTo(n) == IF n = 0 THEN {<<>>} ELSE LET S == SeqsUpTo(n - 1) IN S \cup {Append(x, c) : x \in {y \in S : Len(y) = n - 1}, c \in AlphabetDef}
\* every string over one representative per character class, up to MaxLen
ClassStrings == SeqsUpTo(MaxLen)
\* length 5 over a reduced set of classes (17^5 strings take TLC more than 50 minutes; measured)
Alphabet5 == {" ", "[", ")", "|", ".", "-", "=", "<", ">", "A", "a", "1", "#"}
RECURSIVE SeqsUpTo5(_)
SeqsUpTo5(n) == IF n = 0 THEN {<<>>} ELSE LET S == SeqsUpTo5(n - 1) IN S \cup {Append(x, c) : x \in {y \in S : Len(y) = n - 1}, c \in Alphabet5}
ClassStrings5 == SeqsUpTo(4) \cup SeqsUpTo5(5)
\* strings recorded in a file (random whole specs, harvested specs): lexstrings.json = list of character lists
FileStrings == LET L == JsonDeserialize("lexstrings.json") IN {L[i] : i \in DOMAIN L}
====
