SPECIFICATION Spec
CONSTANTS N = 2  PooledContext = TRUE
INVARIANT Independent
CHECK_DEADLOCK FALSE
