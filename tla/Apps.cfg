SPECIFICATION Spec
CONSTANTS N = 3  PooledContext = FALSE
INVARIANT Independent
PROPERTY AllDone
CHECK_DEADLOCK FALSE
