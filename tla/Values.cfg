SPECIFICATION Spec
INVARIANTS CleanMeetsC06 CleanMeetsC13 CleanMeetsC15 CleanMeetsC19 DevOnlyMulti
PROPERTY Terminates
CHECK_DEADLOCK FALSE
