------------------------------ MODULE OpModel ------------------------------
(***************************************************************************)
(* Implementation-shaped model of what happens between a spec's token      *)
(* structure and a verdict (C01 C02 C03 C12):                              *)
(*   internal/parser: seq / choice / atom   -> Thompson-style graph with   *)
(*                                             shortcut (eps) edges        *)
(*   internal/fsm: Prepare = simplify (DFS, simplifySelf loop, the         *)
(*                 "expanded" set of fix 08da7e9) + sortTransitions        *)
(*   internal/fsm: apply = depth-first backtracking with an explicit call  *)
(*                 stack, the leading -- drop, the terminal test, and the  *)
(*                 set of (state, arguments, options-ended) configurations *)
(*                 already entered (each is explored once: cycles of       *)
(*                 non-consuming matches are cut, failed configurations    *)
(*                 are not explored again)                                 *)
(*   internal/matcher: opt / options (ExcludedOpts) / arg / optsEnd        *)
(* One action per loop iteration / recursion step of the Go code.          *)
(* Checked against RefSemantics (AgreesWithRef) and for termination        *)
(* (liveness under weak fairness).  The Fix* switches model the code       *)
(* before the corresponding fix: with FixSimplifyLoop = FALSE TLC finds    *)
(* the lasso of `[[X]...]...`, with FixEpsLoop = FALSE the unbounded stack *)
(* of `[-e...] X`.                                                         *)
(*                                                                         *)
(* opmodel.json: [prog, specs (seq of [cst, ast]), alphabet, envsets,      *)
(*               maxlen].  cst = Seq = <<Choice..>>, Choice = <<Atom..>>,  *)
(* Atom = [k, a, xs, body, rep], k in arg opt grp end par sq.              *)
(***************************************************************************)
EXTENDS RefSemantics, Matchers, Json

CONSTANTS FixEpsLoop, FixSimplifyLoop, FixTrailingDD, FixGroupEnvExcl

In == JsonDeserialize("opmodel.json")
SeqToSet(s) == {s[i] : i \in DOMAIN s}
P == [short |-> In.prog.short, long |-> In.prog.long, flags |-> SeqToSet(In.prog.flags)]

\* ---------- graph: [tr (per state: sequence of [m, n]), term (per state)] ----------
Eps == [k |-> "eps", a |-> "", xs |-> <<>>]
EmptyG == [tr |-> <<>>, term |-> <<>>]
NewS(G) == [g |-> [tr |-> Append(G.tr, <<>>), term |-> Append(G.term, FALSE)], s |-> Len(G.tr) + 1]
AddT(G, s, m, n) == [G EXCEPT !.tr[s] = Append(@, [m |-> m, n |-> n])]
MatcherOf(at) == IF at.k = "grp" THEN [k |-> "grp", a |-> "", xs |-> at.xs] ELSE [k |-> at.k, a |-> at.a, xs |-> <<>>]

RECURSIVE BSeq(_, _), BSeqLoop(_, _, _, _, _), BChoice(_, _), BChoiceLoop(_, _, _, _, _), BAtom(_, _), CopyT(_, _, _, _)
CopyT(G, from, to, i) == IF i > Len(G.tr[from]) THEN G ELSE CopyT(AddT(G, to, G.tr[from][i].m, G.tr[from][i].n), from, to, i + 1)
BSeqLoop(G, sq, i, start, end) ==
  IF i > Len(sq) THEN [g |-> G, s |-> start, e |-> end]
  ELSE LET c == BChoice(G, sq[i]) IN BSeqLoop(CopyT(c.g, c.s, end, 1), sq, i + 1, start, c.e)
BSeq(G, sq) == LET n == NewS(G) IN BSeqLoop(n.g, sq, 1, n.s, n.s)
BChoiceLoop(G, c, i, start, end) ==
  IF i > Len(c) THEN [g |-> G, s |-> start, e |-> end]
  ELSE LET a == BAtom(G, c[i]) IN BChoiceLoop(AddT(AddT(a.g, start, Eps, a.s), a.e, Eps, end), c, i + 1, start, end)
BChoice(G, c) == LET n1 == NewS(G) n2 == NewS(n1.g) IN BChoiceLoop(n2.g, c, 1, n1.s, n2.s)
BAtom(G, at) ==
  LET n0 == NewS(G) IN    \* "start := fsm.NewState()" comes first for every atom
  LET r == IF at.k \in {"arg", "opt", "grp", "end"} THEN
              LET n1 == NewS(n0.g) IN [g |-> AddT(n1.g, n0.s, MatcherOf(at), n1.s), s |-> n0.s, e |-> n1.s]
           ELSE IF at.k = "par" THEN BSeq(n0.g, at.body)
           ELSE LET b == BSeq(n0.g, at.body) IN [g |-> AddT(b.g, b.s, Eps, b.e), s |-> b.s, e |-> b.e]
  IN IF at.rep /\ at.k # "end" THEN [r EXCEPT !.g = AddT(r.g, r.e, Eps, r.s)] ELSE r
Compile(cst) == LET b == BSeq(EmptyG, cst) IN [g |-> [b.g EXCEPT !.term[b.e] = TRUE], root |-> b.s]

\* ---------- matchers: tla/Matchers.tla ----------
MatchM(m, args, ro, env) == MMatch(P, FixGroupEnvExcl, m, args, ro, env)

\* ---------- state machine ----------
VARIABLES si, env, argv, G, root, phase,
          sstack, visited, expanded,      \* simplify
          astack, ret, steps,             \* apply
          seen,                           \* configurations <<state, args, options-ended>> apply was already called on
          hist                            \* history: the calls of apply that reached their matchers, in order: <<state, args, options-ended>>
vars == <<si, env, argv, G, root, phase, sstack, visited, expanded, astack, ret, steps, seen, hist>>

Alphabet == SeqToSet(In.alphabet)
RECURSIVE SeqsUpTo(_)
SeqsUpTo(n) == IF n = 0 THEN {<<>>} ELSE LET S == SeqsUpTo(n - 1) IN S \cup {Append(s, t) : s \in {x \in S : Len(x) = n - 1}, t \in Alphabet}

Init == /\ si \in DOMAIN In.specs
        /\ env \in {SeqToSet(In.envsets[i]) : i \in DOMAIN In.envsets}
        /\ argv \in SeqsUpTo(In.maxlen)
        /\ LET c == Compile(In.specs[si].cst) IN G = c.g /\ root = c.root
        /\ phase = "simplify"
        /\ sstack = <<[s |-> root, i |-> 0, n |-> Len(G.tr[root])]>> /\ visited = {root} /\ expanded = {}
        /\ astack = <<>> /\ ret = "none" /\ steps = 0 /\ seen = {} /\ hist = <<>>

Top(st) == st[Len(st)]
Pop(st) == SubSeq(st, 1, Len(st) - 1)
SetTop(st, f) == [st EXCEPT ![Len(st)] = f]

(* simplify(start, s, visited): first recurse into every transition's target, then loop simplifySelf *)
SimplifyVisit ==
  /\ phase = "simplify" /\ sstack # <<>>
  /\ LET f == Top(sstack) IN
     /\ f.i < f.n       \* "range s.Transitions" is evaluated once, before any simplifySelf on s
     /\ LET n == G.tr[f.s][f.i + 1].n IN
        IF n \in visited THEN /\ sstack' = SetTop(sstack, [f EXCEPT !.i = @ + 1]) /\ UNCHANGED visited
        ELSE /\ sstack' = Append(SetTop(sstack, [f EXCEPT !.i = @ + 1]), [s |-> n, i |-> 0, n |-> Len(G.tr[n])]) /\ visited' = visited \cup {n}
  /\ UNCHANGED <<si, env, argv, G, root, phase, expanded, astack, ret, steps, seen, hist>>

FirstEps(trs) == LET S == {i \in 1..Len(trs) : trs[i].m.k = "eps"} IN IF S = {} THEN 0 ELSE CHOOSE i \in S : \A j \in S : i <= j
HasT(trs, t) == \E i \in 1..Len(trs) : trs[i] = t
RECURSIVE AddMissing(_, _, _)
AddMissing(trs, src, i) == IF i > Len(src) THEN trs ELSE AddMissing(IF HasT(trs, src[i]) THEN trs ELSE Append(trs, src[i]), src, i + 1)

(* one iteration of "for s.simplifySelf(start, expanded) {}" *)
SimplifySelf ==
  /\ phase = "simplify" /\ sstack # <<>>
  /\ LET f == Top(sstack) IN
     /\ f.i >= f.n
     /\ LET trs == G.tr[f.s]
            idx == FirstEps(trs) IN
        IF idx = 0 THEN   \* the loop ends: return from simplify(s)
           /\ sstack' = Pop(sstack) /\ expanded' = {} /\ UNCHANGED G
        ELSE LET nx == trs[idx].n
                 removed == SubSeq(trs, 1, idx - 1) \o SubSeq(trs, idx + 1, Len(trs)) IN
             IF FixSimplifyLoop /\ nx \in expanded THEN
                /\ G' = [G EXCEPT !.tr[f.s] = removed] /\ UNCHANGED <<sstack, expanded>>
             ELSE
                \* next.Transitions is read after s.Transitions was reassigned (matters when nx = f.s)
                /\ LET src == IF nx = f.s THEN removed ELSE G.tr[nx] IN
                   G' = [G EXCEPT !.tr[f.s] = AddMissing(removed, src, 1), !.term[f.s] = @ \/ G.term[nx]]
                /\ expanded' = expanded \cup {nx} /\ UNCHANGED sstack
  /\ UNCHANGED <<si, env, argv, root, phase, visited, astack, ret, steps, seen, hist>>

StableSort(trs) == LET Q(p) == SelectSeq(trs, LAMBDA t : Prio(t.m) = p) IN Q(1) \o Q(2) \o Q(8) \o Q(9) \o Q(10)

(* sortTransitions (the order of visiting does not matter: one step), then Parse calls apply on the root *)
SimplifyDone ==
  /\ phase = "simplify" /\ sstack = <<>>
  /\ G' = [G EXCEPT !.tr = [i \in 1..Len(G.tr) |-> StableSort(G.tr[i])]]
  /\ phase' = "apply"
  /\ astack' = <<[s |-> root, args |-> argv, ro |-> FALSE, b |-> <<>>, stage |-> "enter", ms |-> <<>>, mi |-> 0]>>
  /\ UNCHANGED <<si, env, argv, root, sstack, visited, expanded, ret, steps, seen, hist>>

RECURSIVE Collect(_, _, _, _, _)
Collect(trs, i, args, ro, e) ==
  IF i > Len(trs) THEN <<>>
  ELSE LET m == MatchM(trs[i].m, args, ro, e) IN
       (IF m.ok THEN <<[n |-> trs[i].n, rem |-> m.rem, ro |-> m.ro, b |-> m.b]>> ELSE <<>>) \o Collect(trs, i + 1, args, ro, e)

(* apply: entry of a call *)
Enter ==
  /\ phase = "apply" /\ astack # <<>> /\ ret = "none"
  /\ LET f == Top(astack) IN
     /\ f.stage = "enter"
     /\ seen' = seen \cup {<<f.s, f.args, f.ro>>}
     /\ IF FixEpsLoop /\ <<f.s, f.args, f.ro>> \in seen THEN
           /\ astack' = Pop(astack) /\ ret' = "false"
        ELSE IF ~FixTrailingDD /\ G.term[f.s] /\ Len(f.args) = 0 THEN
           /\ ret' = "true" /\ UNCHANGED astack
        ELSE LET drop == Len(f.args) > 0 /\ ~f.ro /\ IsDD(f.args[1])
                 args2 == IF drop THEN Tail(f.args) ELSE f.args
                 ro2 == f.ro \/ drop IN
             IF FixTrailingDD /\ G.term[f.s] /\ Len(args2) = 0 THEN
                /\ ret' = "true" /\ UNCHANGED astack
             ELSE
                /\ astack' = SetTop(astack, [f EXCEPT !.args = args2, !.ro = ro2, !.stage = "try", !.mi = 1,
                                                    !.ms = Collect(G.tr[f.s], 1, args2, ro2, env)])
                /\ UNCHANGED ret
  /\ steps' = steps + 1
  /\ hist' = LET f == Top(astack)
                 drop == Len(f.args) > 0 /\ ~f.ro /\ IsDD(f.args[1])
                 args2 == IF drop THEN Tail(f.args) ELSE f.args
                 reaches == /\ ~(FixEpsLoop /\ <<f.s, f.args, f.ro>> \in seen)
                            /\ ~(~FixTrailingDD /\ G.term[f.s] /\ Len(f.args) = 0)
                            /\ ~(FixTrailingDD /\ G.term[f.s] /\ Len(args2) = 0)
                            /\ Len(G.tr[f.s]) > 0
             IN IF reaches THEN Append(hist, <<f.s, args2, f.ro \/ drop>>) ELSE hist
  /\ UNCHANGED <<si, env, argv, G, root, phase, sstack, visited, expanded>>

(* apply: the loop over the matches *)
Try ==
  /\ phase = "apply" /\ astack # <<>> /\ ret = "none"
  /\ LET f == Top(astack) IN
     /\ f.stage = "try"
     /\ IF f.mi > Len(f.ms) THEN /\ astack' = Pop(astack) /\ ret' = "false"
        ELSE LET m == f.ms[f.mi] IN
             /\ astack' = Append(astack, [s |-> m.n, args |-> m.rem, ro |-> m.ro, b |-> m.b, stage |-> "enter", ms |-> <<>>, mi |-> 0])
             /\ UNCHANGED ret
  /\ UNCHANGED <<si, env, argv, G, root, phase, sstack, visited, expanded, steps, seen, hist>>

Return ==
  /\ phase = "apply" /\ ret # "none"
  /\ IF ret = "true" THEN
        \* the frame on top succeeded: Merge its context into the caller's and keep returning true
        IF Len(astack) = 1 THEN /\ phase' = "done" /\ UNCHANGED <<astack, ret>>
        ELSE LET child == Top(astack) parent == astack[Len(astack) - 1] IN
             /\ astack' = SetTop(Pop(astack), [parent EXCEPT !.b = @ \o child.b])
             /\ UNCHANGED <<ret, phase>>
     ELSE \* the popped frame failed: the caller tries its next match (or the whole parse failed)
        IF astack = <<>> THEN /\ phase' = "done" /\ UNCHANGED <<astack, ret>>
        ELSE /\ astack' = SetTop(astack, [Top(astack) EXCEPT !.mi = @ + 1]) /\ ret' = "none" /\ UNCHANGED phase
  /\ UNCHANGED <<si, env, argv, G, root, sstack, visited, expanded, steps, seen, hist>>

MapOfB(b) == LET vars2 == {<<b[i][1], b[i][2]>> : i \in 1..Len(b)} IN
             [v \in vars2 |-> LET sel == SelectSeq(b, LAMBDA x : <<x[1], x[2]>> = v) IN [i \in 1..Len(sel) |-> sel[i][3]]]
SE == INSTANCE SequencesExt
MapSeq(m) == SE!SetToSeq({[kind |-> v[1], name |-> v[2], vals |-> m[v]] : v \in DOMAIN m})
Emit ==
  /\ phase = "done" /\ phase' = "emitted"
  /\ PrintT("OP " \o ToJson([si |-> si - 1, env |-> SE!SetToSeq(env), argv |-> argv, accepted |-> (ret = "true"), steps |-> steps,
                              binds |-> IF ret = "true" THEN MapSeq(MapOfB(astack[1].b)) ELSE <<>>,
                              hist |-> [i \in 1..Len(hist) |-> [s |-> hist[i][1], args |-> hist[i][2], ro |-> hist[i][3]]],
                              \* the prepared automaton (once per spec: only with the empty command line)
                              graph |-> IF argv = <<>> THEN [root |-> root, term |-> G.term,
                                          tr |-> [i \in 1..Len(G.tr) |-> [j \in 1..Len(G.tr[i]) |-> [k |-> G.tr[i][j].m.k, a |-> G.tr[i][j].m.a, xs |-> G.tr[i][j].m.xs, n |-> G.tr[i][j].n]]]]
                                        ELSE <<>>]))
  /\ UNCHANGED <<si, env, argv, G, root, sstack, visited, expanded, astack, ret, steps, seen, hist>>

Next == SimplifyVisit \/ SimplifySelf \/ SimplifyDone \/ Enter \/ Try \/ Return \/ Emit
Spec == Init /\ [][Next]_vars /\ WF_vars(Next)

\* ---------- properties ----------
Finished == phase \in {"done", "emitted"}
RefCtx == [P |-> P, env |-> env, D |-> [Clean EXCEPT !.greedy = TRUE, !.groupEnvSat = TRUE]]
RefAcc == AccMaps(RefCtx, In.specs[si].ast, argv)
\* the implementation-shaped machine and the declarative semantics (with the listed greedy-group deviation, which the
\* machine has by construction) agree on the verdict, and the machine's bindings are one of the reference's derivations
AgreesWithRef ==
  Finished =>
     /\ (ret = "true") <=> (RefAcc # {})
     /\ (ret = "true") => MapOfB(astack[1].b) \in RefAcc
Terminates == <>(phase = "emitted")
StackBound == Len(astack) <= 60
SimplifyBound == \A i \in 1..Len(G.tr) : Len(G.tr[i]) <= 80
=============================================================================
