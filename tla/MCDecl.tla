------------------------------- MODULE MCDecl -------------------------------
EXTENDS Decl
OptNamesDef == {<<"a">>, <<"b">>, <<"a", "b">>, <<"b", "a">>}
ArgNamesDef == {<<"X">>, <<"Y">>, <<"X", "1", "_">>, <<"x">>, <<"1", "X">>, <<"O", "P", "T", "I", "O", "N", "S">>,
                <<"X", "-", "Y">>, <<"X", "y">>, <<"_", "X">>, <<"X", "_", "Y">>,
                \* "~" stands for a character outside ASCII (the harness sends U+0142, whose low byte is 'B'): only ASCII goes through TLC
                <<"X", "~">>, <<"~">>,
                \* "!" stands for a line feed, "?" for a carriage return (neither is a character of an upper-case identifier)
                <<"X", "!">>, <<"?", "X">>}
=============================================================================
