SPECIFICATION Spec
INVARIANTS TailUnreachable HelpModeSeesHelp RunValidatedPath
PROPERTY Terminates
CHECK_DEADLOCK FALSE
