------------------------------ MODULE CmdTree ------------------------------
(***************************************************************************)
(* C04 C07 C14: commands.go: Cmd.parse, one action per return path         *)
(* (help here / help for a sub command / reject / descend / run / no       *)
(* action), cli.go: Cli.parse (version short-circuit) and onError (the     *)
(* error policy).  The recogniser of every level is RefSemantics on that   *)
(* level's spec and declarations.                                          *)
(*                                                                         *)
(* trees.json: [trees, alphabet, maxlen, policies, validints]              *)
(*   trees[t] = [nodes, version]; nodes[1] is the application              *)
(*   node = [names (aliases, as strings), path (string), prog, ast,        *)
(*           hasgrp, hasend, subs (node indices), action (BOOLEAN),        *)
(*           policy ("" = inherited, or the policy the command's           *)
(*           initialiser sets)]                                            *)
(* A token is a sequence of characters; sub command names and version      *)
(* names are compared after Join.                                          *)
(***************************************************************************)
EXTENDS RefSemantics, Json

SE == INSTANCE SequencesExt
SetToSeq(S) == SE!SetToSeq(S)
SeqToSet(s) == {s[i] : i \in DOMAIN s}

In == JsonDeserialize("trees.json")
Alphabet == SeqToSet(In.alphabet)
RECURSIVE SeqsUpTo(_)
SeqsUpTo(n) == IF n = 0 THEN {<<>>}
               ELSE LET S == SeqsUpTo(n - 1)
                    IN S \cup {Append(s, t) : s \in {x \in S : Len(x) = n - 1}, t \in Alphabet}

VARIABLES ti, policy, argv,
          node,      \* index of the command being parsed
          rest,      \* its remaining arguments
          helpMode,  \* descending for a help request: no validation, no flows
          levels,    \* what happened so far: sequence of [node, acc] for every validated level
          outcome,   \* <<>> while running; [kind, node, ...] at the end
          emitted,
          pol        \* the error policy of the command being parsed: its own if its initialiser sets one, else its parent's
vars == <<ti, policy, argv, node, rest, helpMode, levels, outcome, emitted, pol>>

Tree == In.trees[ti]
N(i) == Tree.nodes[i]
Prog(i) == LET p == N(i).prog IN [short |-> p.short, long |-> p.long, flags |-> SeqToSet(p.flags)]

\* argument vectors: every vector over the alphabet up to maxlen, or (trees with an explicit list: deep trees) the listed ones
Argvs(t) == IF Len(In.trees[t].vectors) > 0 THEN SeqToSet(In.trees[t].vectors) ELSE SeqsUpTo(In.maxlen)
Init == /\ ti \in DOMAIN In.trees /\ policy \in SeqToSet(In.policies) /\ argv \in Argvs(ti)
        /\ node = 1 /\ rest = argv /\ helpMode = FALSE /\ levels = <<>> /\ outcome = <<>> /\ emitted = FALSE
        /\ pol = IF In.trees[ti].nodes[1].policy # "" THEN In.trees[ti].nodes[1].policy ELSE policy

Running == outcome = <<>>
\* Cmd.Command copies the parent's ErrorHandling into the new command; the command's initialiser may then set its own
Inherit(n) == IF N(n).policy # "" THEN N(n).policy ELSE pol

(* helpIndex: position (1-based) of the first help token before any --, 0 if none *)
RECURSIVE HelpIdx(_, _)
HelpIdx(w, i) == IF i > Len(w) \/ IsDD(w[i]) THEN 0 ELSE IF IsHelpTok(w[i]) THEN i ELSE HelpIdx(w, i + 1)
HelpIndex(w) == HelpIdx(w, 1)

(* getOptsAndArgs: number of tokens before the first one naming a direct sub command (-- does not matter) *)
NamesSub(i, t) == \E k \in DOMAIN N(i).subs : Join(t) \in SeqToSet(N(N(i).subs[k]).names)
SubFor(i, t) == LET S == {k \in DOMAIN N(i).subs : Join(t) \in SeqToSet(N(N(i).subs[k]).names)}
                IN N(i).subs[CHOOSE k \in S : \A j \in S : k <= j]
RECURSIVE NArgsFrom(_, _, _)
NArgsFrom(i, w, k) == IF k > Len(w) \/ NamesSub(i, w[k]) THEN k - 1 ELSE NArgsFrom(i, w, k + 1)
NArgs(i, w) == NArgsFrom(i, w, 1)

Ctx(i) == [P |-> Prog(i), env |-> {}, D |-> Clean]
Acc(i, w) == AccMaps(Ctx(i), N(i).ast, w)
AccGreedy(i, w) == AccMaps([P |-> Prog(i), env |-> {}, D |-> [Clean EXCEPT !.greedy = TRUE]], N(i).ast, w)

\* a value bound to the Int option -n or to the Int argument N that strconv rejects
BadInt(m) == \E v \in DOMAIN m : (v = <<"O", "-n">> \/ v = <<"A", "N">>) /\ \E k \in 1..Len(m[v]) : Join(m[v][k]) \notin SeqToSet(In.validints)
ConvErr(acc) == \E m \in acc : BadInt(m)

(* cli.go: Cli.parse - version flag in first position *)
Version ==
  /\ Running /\ node = 1 /\ levels = <<>> /\ ~helpMode /\ rest = argv
  /\ Len(Tree.version) > 0 /\ Len(argv) > 0 /\ Join(argv[1]) \in SeqToSet(Tree.version)
  /\ outcome' = [kind |-> "version", node |-> 1]
  /\ UNCHANGED <<ti, policy, argv, node, rest, helpMode, levels, emitted, pol>>

NotVersion == ~(node = 1 /\ levels = <<>> /\ ~helpMode /\ rest = argv /\ Len(Tree.version) > 0 /\ Len(argv) > 0 /\ Join(argv[1]) \in SeqToSet(Tree.version))

(* help for this very command *)
HelpHere ==
  /\ Running /\ NotVersion
  /\ LET hi == HelpIndex(rest) nl == NArgs(node, rest) IN hi > 0 /\ hi <= nl
  /\ outcome' = [kind |-> "help", node |-> node]
  /\ UNCHANGED <<ti, policy, argv, node, rest, helpMode, levels, emitted, pol>>

(* help was requested further down: descend without validating *)
HelpDescend ==
  /\ Running /\ NotVersion
  /\ LET hi == HelpIndex(rest) nl == NArgs(node, rest) IN
     /\ hi > 0 /\ hi > nl
     /\ node' = SubFor(node, rest[nl + 1]) /\ rest' = SubSeq(rest, nl + 2, Len(rest)) /\ helpMode' = TRUE
     /\ pol' = Inherit(SubFor(node, rest[nl + 1]))
  /\ UNCHANGED <<ti, policy, argv, levels, outcome, emitted>>

(* validation of this level's own tokens *)
Own == SubSeq(rest, 1, NArgs(node, rest))
Reject ==
  /\ Running /\ NotVersion /\ HelpIndex(rest) = 0
  /\ LET acc == Acc(node, Own) IN acc = {} \/ ConvErr(acc)
  /\ outcome' = [kind |-> "reject", node |-> node]
  /\ UNCHANGED <<ti, policy, argv, node, rest, helpMode, levels, emitted, pol>>

Accepted == HelpIndex(rest) = 0 /\ LET acc == Acc(node, Own) IN acc # {} /\ ~ConvErr(acc)

Descend ==
  /\ Running /\ NotVersion /\ Accepted /\ NArgs(node, rest) < Len(rest)
  /\ levels' = Append(levels, [node |-> node, acc |-> Acc(node, Own), own |-> Own])
  /\ node' = SubFor(node, rest[NArgs(node, rest) + 1]) /\ rest' = SubSeq(rest, NArgs(node, rest) + 2, Len(rest))
  /\ pol' = Inherit(SubFor(node, rest[NArgs(node, rest) + 1]))
  /\ UNCHANGED <<ti, policy, argv, helpMode, outcome, emitted>>

Run ==
  /\ Running /\ NotVersion /\ Accepted /\ NArgs(node, rest) = Len(rest) /\ N(node).action
  /\ levels' = Append(levels, [node |-> node, acc |-> Acc(node, Own), own |-> Own])
  /\ outcome' = [kind |-> "run", node |-> node]
  /\ UNCHANGED <<ti, policy, argv, node, rest, helpMode, emitted, pol>>

NoAction ==
  /\ Running /\ NotVersion /\ Accepted /\ NArgs(node, rest) = Len(rest) /\ ~N(node).action
  /\ outcome' = [kind |-> "noaction", node |-> node]
  /\ UNCHANGED <<ti, policy, argv, node, rest, helpMode, levels, emitted, pol>>

MapSeq(m) == SetToSeq({[kind |-> v[1], name |-> v[2], vals |-> m[v]] : v \in DOMAIN m})
MapsSeq(ms) == SetToSeq({MapSeq(m) : m \in ms})

\* unclaimed for C14: a help token below an ancestor whose own arguments contain --; version flag together with a help token
HasHelpTok(w) == \E i \in 1..Len(w) : IsHelpTok(w[i])
RECURSIVE HasDD(_)
HasDD(w) == \E i \in 1..Len(w) : IsDD(w[i])
HasVersionTok(w) == \E i \in 1..Len(w) : Join(w[i]) \in SeqToSet(Tree.version)
UnclaimedHelp ==
  \/ (HasVersionTok(argv) /\ HasHelpTok(argv))
  \/ (outcome.kind = "help" /\ \E k \in 1..Len(levels) : HasDD(levels[k].own))
\* the verdict of some level depends on the listed greedy-group finding
GreedyMatters == \E k \in 1..Len(levels) : AccGreedy(levels[k].node, levels[k].own) # levels[k].acc

Emit == /\ ~Running /\ ~emitted /\ emitted' = TRUE
        /\ PrintT("TREE " \o ToJson([ti |-> ti - 1, policy |-> policy, argv |-> argv, kind |-> outcome.kind,
                                      path |-> N(outcome.node).path, helpmode |-> helpMode, npolicy |-> pol,
                                      levels |-> [k \in 1..Len(levels) |-> [path |-> N(levels[k].node).path, acc |-> MapsSeq(levels[k].acc)]],
                                      unclaimed |-> UnclaimedHelp,
                                      greedy |-> IF outcome.kind = "reject" THEN AccGreedy(outcome.node, Own) # Acc(outcome.node, Own) ELSE GreedyMatters]))
        /\ UNCHANGED <<ti, policy, argv, node, rest, helpMode, levels, outcome, pol>>

Next == Version \/ HelpHere \/ HelpDescend \/ Reject \/ Descend \/ Run \/ NoAction \/ Emit
Spec == Init /\ [][Next]_vars /\ WF_vars(Next)

(***************************************************************************)
(* Properties of the routing itself                                        *)
(***************************************************************************)
\* parse()'s "illegal input / illegal option" tail is unreachable: after a level validated its own tokens, the next token
\* names one of its sub commands by construction of the split
TailUnreachable == (Running /\ NotVersion /\ Accepted /\ NArgs(node, rest) < Len(rest)) => NamesSub(node, rest[NArgs(node, rest) + 1])
\* once an ancestor decided to descend for help, every descendant sees the help token too (so it never validates with nil flows)
HelpModeSeesHelp == (Running /\ helpMode) => HelpIndex(rest) > 0
\* exactly one outcome, and a run validated every level on the path
RunValidatedPath == (~Running /\ outcome.kind = "run") => Len(levels) >= 1 /\ levels[Len(levels)].node = outcome.node
Terminates == <>(~Running /\ emitted)
=============================================================================
