SPECIFICATION Spec
CONSTANTS FixEpsLoop = TRUE  FixSimplifyLoop = FALSE  FixTrailingDD = TRUE  FixGroupEnvExcl = TRUE
INVARIANTS AgreesWithRef StackBound SimplifyBound
PROPERTY Terminates
CHECK_DEADLOCK FALSE
