SPECIFICATION Spec
CONSTANTS Kinds <- KindsDef  MaxLen = 5
INVARIANTS DescentMeetsGrammar PositionInside
CHECK_DEADLOCK FALSE
