SPECIFICATION Spec
CONSTANTS Strings <- ClassStrings  MaxLen = 5  FixDanglingDash = TRUE  FixDblDashFollow = TRUE
INVARIANTS Conforms PosInside Tiling
CHECK_DEADLOCK FALSE
