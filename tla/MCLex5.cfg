SPECIFICATION Spec
CONSTANTS Strings <- ClassStrings5  MaxLen = 4  FixDanglingDash = TRUE  FixDblDashFollow = TRUE
INVARIANTS Conforms PosInside Tiling
CHECK_DEADLOCK FALSE
