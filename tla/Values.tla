------------------------------- MODULE Values -------------------------------
(***************************************************************************)
(* One declared variable (option or argument) from declaration to the end  *)
(* of Run (C06 C13 C15 C19):                                               *)
(*   options.go: mkOpt / args.go: mkArg   default captured, SetFromEnv     *)
(*   internal/values/utils.go: SetFromEnv, setMultivalued                  *)
(*   internal/fsm/fsm.go: fillContainers  Clear once, Set per token        *)
(* One action per call the library makes on the value (Set, Clear), so the *)
(* call log the model builds is the protocol a custom value type sees.     *)
(*                                                                         *)
(* Tokens are abstract: [id, ok] - ok says whether the value type accepts  *)
(* the token (for the built-in numeric/bool types that is strconv's        *)
(* verdict, supplied with the case).  A case (valcases.json):              *)
(*   multi   the type has Clear()                                          *)
(*   envs    sequence of environment variables, each                       *)
(*             [state: "unset"|"empty"|"set", elems: sequence of tokens]   *)
(*           (single-valued: one element = the whole string)               *)
(*   cli     sequence of tokens the command line binds to the variable     *)
(* dev (chosen in Init) switches the listed deviation Dev_EnvWipesDefault  *)
(* on: the model then behaves as the code does today.                      *)
(***************************************************************************)
EXTENDS Naturals, Sequences, FiniteSets, TLC, Json

Cases == JsonDeserialize("valcases.json")

VARIABLES ci, dev,
          pc,        \* "declare" | "env" | "envset" | "fill" | "fillset" | "done"
          val,       \* sequence of token ids; <<"default">> while the declared default is in place
          ei, ek,    \* current environment variable, current element
          fk,        \* current command-line token
          fromEnv, setByUser, usageErr,
          envlog, filllog,  \* calls made on the value: "C", "S:<id>" (accepted), "S!:<id>" (rejected)
          emitted
vars == <<ci, dev, pc, val, ei, ek, fk, fromEnv, setByUser, usageErr, envlog, filllog, emitted>>

Case == Cases[ci]
Default == <<"default">>

Init == /\ ci \in DOMAIN Cases /\ dev \in BOOLEAN
        /\ pc = "declare" /\ val = Default /\ ei = 1 /\ ek = 1 /\ fk = 1
        /\ fromEnv = FALSE /\ setByUser = FALSE /\ usageErr = FALSE
        /\ envlog = <<>> /\ filllog = <<>> /\ emitted = FALSE

\* applying an accepted token to the value
Put(v, id) == IF Case.multi THEN (IF v = Default THEN <<id>> ELSE Append(v, id)) ELSE <<id>>

(* mkOpt/mkArg: the default is in place, then SetFromEnv starts *)
Declare == /\ pc = "declare" /\ pc' = "env"
           /\ UNCHANGED <<ci, dev, val, ei, ek, fk, fromEnv, setByUser, usageErr, envlog, filllog, emitted>>

(* SetFromEnv: look at the next variable of the list *)
EnvNext ==
  /\ pc = "env"
  /\ IF ei > Len(Case.envs) THEN
        /\ pc' = "fill" /\ UNCHANGED <<ei, ek, val, envlog>>
     ELSE LET e == Case.envs[ei] IN
        IF e.state # "set" THEN     \* unset or empty: skipped
           /\ ei' = ei + 1 /\ UNCHANGED <<pc, ek, val, envlog>>
        ELSE IF Case.multi THEN     \* setMultivalued starts with Clear()
           /\ pc' = "envset" /\ ek' = 1 /\ val' = <<>> /\ envlog' = Append(envlog, "C") /\ UNCHANGED ei
        ELSE
           /\ pc' = "envset" /\ ek' = 1 /\ UNCHANGED <<ei, val, envlog>>
  /\ UNCHANGED <<ci, dev, fk, fromEnv, setByUser, usageErr, filllog, emitted>>

(* one Set call of the environment phase *)
EnvSet ==
  /\ pc = "envset"
  /\ LET e == Case.envs[ei] IN
     IF ek > Len(e.elems) THEN      \* every element accepted: this variable wins
        /\ fromEnv' = TRUE /\ pc' = "fill" /\ UNCHANGED <<ei, ek, val, envlog>>
     ELSE LET t == e.elems[ek] IN
        IF t.ok THEN
           /\ val' = Put(val, t.id) /\ ek' = ek + 1 /\ envlog' = Append(envlog, "S:" \o t.id)
           /\ UNCHANGED <<pc, ei, fromEnv>>
        ELSE                          \* rejected: single-valued keeps its value; multi-valued is cleared again
           /\ envlog' = IF Case.multi THEN envlog \o <<"S!:" \o t.id, "C">> ELSE Append(envlog, "S!:" \o t.id)
           /\ val' = IF Case.multi THEN (IF dev THEN <<>> ELSE Default) ELSE val
           /\ ei' = ei + 1 /\ pc' = "env" /\ UNCHANGED <<ek, fromEnv>>
  /\ UNCHANGED <<ci, dev, fk, setByUser, usageErr, filllog, emitted>>

(* a multi-valued value whose environment phase ended on a rejected list and found no valid variable:
   the clean behaviour is the declared default; Dev_EnvWipesDefault leaves it empty (handled in EnvSet) *)

(* fillContainers: nothing to do without command-line tokens; else Clear once (multi-valued) *)
FillStart ==
  /\ pc = "fill"
  /\ IF Len(Case.cli) = 0 THEN pc' = "done" /\ UNCHANGED <<val, filllog>>
     ELSE /\ pc' = "fillset"
          /\ IF Case.multi THEN val' = <<>> /\ filllog' = Append(filllog, "C") ELSE UNCHANGED <<val, filllog>>
  /\ UNCHANGED <<ci, dev, ei, ek, fk, fromEnv, setByUser, usageErr, envlog, emitted>>

FillSet ==
  /\ pc = "fillset"
  /\ IF fk > Len(Case.cli) THEN
        /\ pc' = "done" /\ fromEnv' = FALSE /\ setByUser' = TRUE /\ UNCHANGED <<val, fk, usageErr, filllog>>
     ELSE LET t == Case.cli[fk] IN
        IF t.ok THEN
           /\ val' = Put(val, t.id) /\ fk' = fk + 1 /\ filllog' = Append(filllog, "S:" \o t.id)
           /\ UNCHANGED <<pc, fromEnv, setByUser, usageErr>>
        ELSE
           /\ usageErr' = TRUE /\ pc' = "done" /\ filllog' = Append(filllog, "S!:" \o t.id)
           /\ UNCHANGED <<val, fk, fromEnv, setByUser>>
  /\ UNCHANGED <<ci, dev, ei, ek, envlog, emitted>>

Emit == /\ pc = "done" /\ ~emitted /\ emitted' = TRUE
        /\ PrintT("VAL " \o ToJson([ci |-> ci - 1, dev |-> dev, val |-> val, usage |-> usageErr, sbu |-> setByUser,
                                     envlog |-> envlog, filllog |-> filllog]))
        /\ UNCHANGED <<ci, dev, pc, val, ei, ek, fk, fromEnv, setByUser, usageErr, envlog, filllog>>

Next == Declare \/ EnvNext \/ EnvSet \/ FillStart \/ FillSet \/ Emit
Spec == Init /\ [][Next]_vars /\ WF_vars(Next)

(***************************************************************************)
(* The properties in closed form.                                          *)
(***************************************************************************)
AllOk(ts) == \A i \in 1..Len(ts) : ts[i].ok
Ids(ts) == [i \in 1..Len(ts) |-> ts[i].id]
ValidEnv(i) == Case.envs[i].state = "set" /\ AllOk(Case.envs[i].elems)
FirstValidEnv == LET S == {i \in 1..Len(Case.envs) : ValidEnv(i)} IN
                 IF S = {} THEN 0 ELSE CHOOSE i \in S : \A j \in S : i <= j
EnvValue(i) == IF Case.multi THEN Ids(Case.envs[i].elems) ELSE <<Case.envs[i].elems[1].id>>
CliValue == IF Case.multi THEN Ids(Case.cli) ELSE <<Case.cli[Len(Case.cli)].id>>

\* C06: command line, then environment, then default
C06Expected == IF Len(Case.cli) > 0 THEN CliValue
               ELSE IF FirstValidEnv > 0 THEN EnvValue(FirstValidEnv) ELSE Default
\* C13: an unparsable command-line token is a usage error
C13Expected == ~AllOk(Case.cli)
\* C15: SetByUser iff the command line supplied a value
C15Expected == Len(Case.cli) > 0

Finished == pc = "done" /\ emitted
\* the clean model (dev off) meets the properties on every case
CleanMeetsC06 == (Finished /\ ~dev /\ ~usageErr) => val = C06Expected
CleanMeetsC13 == (Finished /\ ~dev) => usageErr = C13Expected
CleanMeetsC15 == (Finished /\ ~dev /\ ~usageErr) => setByUser = C15Expected
\* C19: Clear exactly once before command-line values are applied, then every token in order
CleanMeetsC19 == (Finished /\ ~dev /\ ~usageErr /\ Len(Case.cli) > 0) =>
   filllog = (IF Case.multi THEN <<"C">> ELSE <<>>) \o [i \in 1..Len(Case.cli) |-> "S:" \o Case.cli[i].id]
\* the deviation is only ever visible for multi-valued types after a rejected list
DevOnlyMulti == (Finished /\ dev /\ ~usageErr /\ val # C06Expected) =>
   (Case.multi /\ Len(Case.cli) = 0 /\ \E i \in 1..Len(Case.envs) : Case.envs[i].state = "set" /\ ~AllOk(Case.envs[i].elems))
Terminates == <>Finished
=============================================================================
