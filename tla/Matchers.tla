------------------------------ MODULE Matchers ------------------------------
(***************************************************************************)
(* internal/matcher: the four matchers as functions of (arguments,         *)
(* options-ended flag, environment-backed set), written like the Go code   *)
(* (opt.Match, options.Match/try with ExcludedOpts, arg.Match,             *)
(* optsEnd.Match).  Used by OpModel.tla (the search calls them) and by     *)
(* MatchTrace.tla (every real call of Matcher.Match recorded through the   *)
(* guarded decorators is validated against them).                          *)
(* A result is [ok, rem, b, ro]: b = sequence of <<"O"|"A", name, value>>. *)
(***************************************************************************)
EXTENDS CmdLine

Prio(m) == CASE m.k = "opt" -> 1 [] m.k = "grp" -> 2 [] m.k = "arg" -> 8 [] m.k = "end" -> 9 [] OTHER -> 10

MOpt(P, o, args, ro, env) ==
  IF Len(args) = 0 \/ ro THEN [ok |-> o \in env, rem |-> args, b |-> <<>>, ro |-> ro]
  ELSE LET r == Extract(P, o, args, FALSE) IN
       IF r.ok THEN [ok |-> TRUE, rem |-> r.w, b |-> <<<<"O", o, r.v>>>>, ro |-> ro]
       ELSE [ok |-> o \in env, rem |-> args, b |-> <<>>, ro |-> ro]

RECURSIVE MTry(_, _, _, _, _, _, _, _), MLoop(_, _, _, _, _, _, _, _)
\* options.try: the first listed, not excluded option that matches; fix = behaviour after 9987887 (exclude only after a
\* non-consuming match)
MTry(P, fix, keys, args, ro, env, ex, k) ==
  IF Len(args) = 0 \/ ro \/ k > Len(keys) THEN [ok |-> FALSE]
  ELSE IF keys[k] \in ex THEN MTry(P, fix, keys, args, ro, env, ex, k + 1)
  ELSE LET m == MOpt(P, keys[k], args, ro, env) IN
       IF m.ok THEN [ok |-> TRUE, rem |-> m.rem, b |-> m.b,
                     ex |-> IF keys[k] \in env /\ (~fix \/ m.b = <<>>) THEN ex \cup {keys[k]} ELSE ex]
       ELSE MTry(P, fix, keys, args, ro, env, ex, k + 1)
MLoop(P, fix, keys, args, ro, env, ex, b) ==
  LET t == MTry(P, fix, keys, args, ro, env, ex, 1) IN
  IF ~t.ok THEN [ok |-> TRUE, rem |-> args, b |-> b, ro |-> ro] ELSE MLoop(P, fix, keys, t.rem, ro, env, t.ex, b \o t.b)
MGrp(P, fix, keys, args, ro, env) ==
  LET t == MTry(P, fix, keys, args, ro, env, {}, 1) IN
  IF ~t.ok THEN [ok |-> FALSE, rem |-> args, b |-> <<>>, ro |-> ro] ELSE MLoop(P, fix, keys, t.rem, ro, env, t.ex, t.b)

MArg(a, args, ro) ==
  IF Len(args) = 0 THEN [ok |-> FALSE, rem |-> args, b |-> <<>>, ro |-> ro]
  ELSE IF ~ro /\ StartsDash(args[1]) /\ ~IsSingle(args[1]) THEN [ok |-> FALSE, rem |-> args, b |-> <<>>, ro |-> ro]
  ELSE [ok |-> TRUE, rem |-> Tail(args), b |-> <<<<"A", a, args[1]>>>>, ro |-> ro]

MMatch(P, fix, m, args, ro, env) ==
  CASE m.k = "opt" -> MOpt(P, m.a, args, ro, env)
    [] m.k = "grp" -> MGrp(P, fix, m.xs, args, ro, env)
    [] m.k = "arg" -> MArg(m.a, args, ro)
    [] m.k = "end" -> [ok |-> TRUE, rem |-> args, b |-> <<>>, ro |-> TRUE]
    [] OTHER -> [ok |-> TRUE, rem |-> args, b |-> <<>>, ro |-> ro]
=============================================================================
