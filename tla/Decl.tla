-------------------------------- MODULE Decl --------------------------------
(***************************************************************************)
(* C18: sequences of option declarations (options.go: mkOpt, mkOptStrs)    *)
(* and argument declarations (args.go: mkArg, validArgName) against the    *)
(* name table.  One action per declaration.  Names are sequences of        *)
(* 1-character strings.                                                    *)
(*                                                                         *)
(* A declaration must panic iff one of its names is already owned by an    *)
(* accepted declaration (or occurs twice in its own list) / the argument   *)
(* name is repeated or is not an upper-case identifier.  Names that were   *)
(* only ever listed by a REJECTED declaration are "tainted": the property  *)
(* says nothing about reusing them (the code leaves them half-registered), *)
(* so the prediction for a declaration that collides only with tainted     *)
(* names is "either".                                                      *)
(***************************************************************************)
EXTENDS Naturals, Sequences, FiniteSets, TLC, Json

CONSTANTS OptNames,     \* set of option names (sequences of characters, without dashes)
          ArgNames,     \* set of candidate argument names
          MaxDecls, MaxListLen

Upper == {"A", "B", "C", "D", "E", "F", "G", "H", "I", "J", "K", "L", "M", "N", "O", "P", "Q", "R", "S", "T", "U", "V", "W", "X", "Y", "Z"}
Digit == {"0", "1", "2", "3", "4", "5", "6", "7", "8", "9"}
IsUpperIdent(n) == /\ Len(n) >= 1 /\ n[1] \in Upper
                   /\ \A i \in 2..Len(n) : n[i] \in Upper \cup Digit \cup {"_"}
                   /\ n # <<"O", "P", "T", "I", "O", "N", "S">>

RECURSIVE SeqsLen(_, _)
SeqsLen(S, n) == IF n = 0 THEN {<<>>} ELSE {Append(s, x) : s \in SeqsLen(S, n - 1), x \in S}
SeqsFromTo(S, lo, hi) == UNION {SeqsLen(S, n) : n \in lo..hi}

NameLists == SeqsFromTo(OptNames, 1, MaxListLen)

VARIABLES kind,      \* "opts" | "args"
          decls,     \* the sequence of declarations: name lists (opts) or names (args)
          i,         \* next declaration
          owner,     \* function: name -> index of the accepted declaration owning it
          tainted,   \* names listed only by rejected declarations
          outcome,   \* per declaration: "ok" | "panic" | "either"
          emitted
vars == <<kind, decls, i, owner, tainted, outcome, emitted>>

Init == /\ kind \in {"opts", "args"}
        /\ decls \in IF kind = "opts" THEN SeqsFromTo(NameLists, 1, MaxDecls) ELSE SeqsFromTo(ArgNames, 1, MaxDecls)
        /\ i = 1 /\ owner = <<>> /\ tainted = {} /\ outcome = <<>> /\ emitted = FALSE

Owned == DOMAIN owner
NamesOf(l) == {l[k] : k \in 1..Len(l)}
HasDupWithin(l) == \E a, b \in 1..Len(l) : a # b /\ l[a] = l[b]

DeclareOpt ==
  /\ kind = "opts" /\ i <= Len(decls)
  /\ LET l == decls[i] IN
     IF HasDupWithin(l) \/ NamesOf(l) \cap Owned # {} THEN      \* must panic
        /\ outcome' = Append(outcome, "panic") /\ tainted' = tainted \cup (NamesOf(l) \ Owned) /\ UNCHANGED owner
     ELSE IF NamesOf(l) \cap tainted # {} THEN                   \* collides only with a half-registered name
        /\ outcome' = Append(outcome, "either") /\ tainted' = tainted \cup NamesOf(l) /\ UNCHANGED owner
     ELSE
        /\ outcome' = Append(outcome, "ok")
        /\ owner' = [n \in Owned \cup NamesOf(l) |-> IF n \in Owned THEN owner[n] ELSE i]
        /\ UNCHANGED tainted
  /\ i' = i + 1 /\ UNCHANGED <<kind, decls, emitted>>

DeclareArg ==
  /\ kind = "args" /\ i <= Len(decls)
  /\ LET n == decls[i] IN
     IF ~IsUpperIdent(n) \/ n \in Owned THEN
        /\ outcome' = Append(outcome, "panic") /\ UNCHANGED <<owner, tainted>>
     ELSE
        /\ outcome' = Append(outcome, "ok")
        /\ owner' = [m \in Owned \cup {n} |-> IF m \in Owned THEN owner[m] ELSE i]
        /\ UNCHANGED tainted
  /\ i' = i + 1 /\ UNCHANGED <<kind, decls, emitted>>

RECURSIVE Join(_)
Join(t) == IF Len(t) = 0 THEN "" ELSE t[1] \o Join(Tail(t))
JoinList(l) == [k \in 1..Len(l) |-> Join(l[k])]

Emit == /\ i > Len(decls) /\ ~emitted /\ emitted' = TRUE
        /\ PrintT("DECL " \o ToJson([kind |-> kind,
                    decls |-> IF kind = "opts" THEN [k \in 1..Len(decls) |-> JoinList(decls[k])] ELSE JoinList(decls),
                    outcome |-> outcome,
                    \* which accepted declaration every usable name addresses (0-based); tainted names are left out
                    owner |-> [n \in {Join(x) : x \in Owned \ tainted} |-> owner[CHOOSE x \in Owned : Join(x) = n] - 1]]))
        /\ UNCHANGED <<kind, decls, i, owner, tainted, outcome>>

Next == DeclareOpt \/ DeclareArg \/ Emit
Spec == Init /\ [][Next]_vars

\* no name is ever owned by two declarations, and an accepted declaration owns all its names
TableSound == \A n \in Owned : owner[n] < i /\ outcome[owner[n]] = "ok"
AcceptedOwnsAll == \A k \in 1..Len(outcome) : (outcome[k] = "ok" /\ kind = "opts") => \A n \in NamesOf(decls[k]) : n \in Owned /\ owner[n] = k
=============================================================================
