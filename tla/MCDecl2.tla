------------------------------- MODULE MCDecl2 -------------------------------
(* C18: option names that differ only by case, by an underscore versus a dash, or are one upper-case letter *)
EXTENDS Decl
OptNamesDef == {<<"a">>, <<"A">>, <<"a", "_", "b">>, <<"a", "-", "b">>, <<"a", "b">>}
ArgNamesDef == {<<"X">>}
=============================================================================
