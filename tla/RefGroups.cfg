SPECIFICATION Spec
INVARIANTS GeneratorsSound ReferenceSatisfiesLaw
CHECK_DEADLOCK FALSE
