SPECIFICATION Spec
CONSTANTS Strings <- ClassStrings  MaxLen = 3  FixDanglingDash = TRUE  FixDblDashFollow = TRUE
INVARIANTS Conforms PosInside Tiling
PROPERTY Terminates
CHECK_DEADLOCK FALSE
