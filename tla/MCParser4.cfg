SPECIFICATION Spec
CONSTANTS Kinds <- KindsDef  MaxLen = 4  Seqs <- AllSeqs
INVARIANTS DescentMeetsGrammar PositionInside
CHECK_DEADLOCK FALSE
