SPECIFICATION Spec
CONSTANTS Kinds <- KindsDef  MaxLen = 4
INVARIANTS DescentMeetsGrammar PositionInside
CHECK_DEADLOCK FALSE
