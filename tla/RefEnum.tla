------------------------------- MODULE RefEnum -------------------------------
(***************************************************************************)
(* Bounded-exhaustive enumeration of (spec, environment, command line)     *)
(* cases with the reference semantics' prediction for each (binding A,     *)
(* DESIGN.md 2.2).  Init picks a case from the family in family.json, Eval *)
(* computes what RefSemantics says about it and prints one line            *)
(*     "CASE {json}"                                                       *)
(* which /verif/check replays on the real library.                         *)
(*                                                                         *)
(* family.json: [progs, specs, alphabet, envsets, maxlen]                  *)
(*   specs[i] = [prog (0-based), ast, hasgrp, hasend]                      *)
(***************************************************************************)
EXTENDS RefSemantics, Json

SE == INSTANCE SequencesExt
SetToSeq(S) == SE!SetToSeq(S)

Fam == JsonDeserialize("family.json")

SeqToSet(s) == {s[i] : i \in DOMAIN s}
ProgOf(i) == LET p == Fam.progs[Fam.specs[i].prog + 1]
             IN [short |-> p.short, long |-> p.long, flags |-> SeqToSet(p.flags)]
Alphabet == SeqToSet(Fam.alphabet)
EnvSets == {SeqToSet(Fam.envsets[i]) : i \in DOMAIN Fam.envsets}

RECURSIVE SeqsUpTo(_)
SeqsUpTo(n) == IF n = 0 THEN {<<>>}
               ELSE LET S == SeqsUpTo(n - 1)
                    IN S \cup {Append(s, t) : s \in {x \in S : Len(x) = n - 1}, t \in Alphabet}

VARIABLES si, env, argv, phase, out
vars == <<si, env, argv, phase, out>>

Init == /\ si \in DOMAIN Fam.specs
        /\ env \in EnvSets
        /\ argv \in SeqsUpTo(Fam.maxlen)
        /\ phase = "case"
        /\ out = <<>>

Ctx(D) == [P |-> ProgOf(si), env |-> env, D |-> D]

MapSeq(m) == SetToSeq({[kind |-> v[1], name |-> v[2], vals |-> m[v]] : v \in DOMAIN m})
MapsSeq(ms) == SetToSeq({MapSeq(m) : m \in ms})

Prediction ==
  LET sp == Fam.specs[si]
      accC == AccMaps(Ctx(Clean), sp.ast, argv)
      accS == IF env = {} \/ ~sp.hasgrp THEN accC
              ELSE AccMaps(Ctx([Clean EXCEPT !.groupEnvSat = TRUE]), sp.ast, argv)
      accL == IF ~sp.hasend THEN accC
              ELSE AccMaps(Ctx([Clean EXCEPT !.endLate = TRUE]), sp.ast, argv)
      accG == IF ~sp.hasgrp THEN accC
              ELSE AccMaps(Ctx([Clean EXCEPT !.greedy = TRUE, !.groupEnvSat = TRUE]), sp.ast, argv)
  IN [acc |-> accC,
      uncl |-> (ShapeUnclaimed(ProgOf(si), argv) \/ accS # accC \/ accL # accC),
      accG |-> accG]

Eval == /\ phase = "case"
        /\ phase' = "done"
        /\ LET p == Prediction IN
           /\ out' = p
           /\ PrintT("CASE " \o ToJson([si |-> si - 1, env |-> SetToSeq(env), argv |-> argv,
                                        acc |-> MapsSeq(p.acc), uncl |-> p.uncl,
                                        same |-> (p.accG = p.acc),
                                        accG |-> IF p.accG = p.acc THEN <<>> ELSE MapsSeq(p.accG)]))
        /\ UNCHANGED <<si, env, argv>>

Next == Eval
Spec == Init /\ [][Next]_vars

(***************************************************************************)
(* Model-level theorems about the oracle itself, checked on every case.    *)
(***************************************************************************)
\* every derivation binds only declared variables, and (C02) after the end-of-options marker
\* every token is bound verbatim: the values bound are sub-tokens of argv
Done == phase = "done"

\* C01/C02 sanity: acceptance sets are finite sets of maps whose option values come from the line
RECURSIVE Flatten(_)
Flatten(w) == IF Len(w) = 0 THEN <<>> ELSE w[1] \o Flatten(Tail(w))

\* positional tokens are bound exactly once and in order: the concatenation of all "A" values, in
\* derivation order, is a subsequence of argv (checked on the binding sequences, not the maps)
RECURSIVE IsSubseq(_, _)
IsSubseq(a, b) == IF Len(a) = 0 THEN TRUE
                  ELSE IF Len(b) = 0 THEN FALSE
                  ELSE IF a[1] = b[1] THEN IsSubseq(Tail(a), Tail(b)) ELSE IsSubseq(a, Tail(b))
ArgValues(d) == [i \in 1..Len(d.ab) |-> d.ab[i][2]]
PositionalsInOrder ==
  (Done /\ ~Fam.specs[si].hasend) => \A b \in Accepting(Ctx(Clean), Fam.specs[si].ast, argv) : IsSubseq(ArgValues(b), argv)

\* tokens after the first marker are bound verbatim, all of them, in order (C02, C09)
RECURSIVE AfterMarker(_)
AfterMarker(w) == IF Len(w) = 0 THEN <<>> ELSE IF IsDD(w[1]) THEN Tail(w) ELSE AfterMarker(Tail(w))
HasMarker(w) == \E i \in 1..Len(w) : IsDD(w[i])
IsSuffixOf(a, b) == Len(a) <= Len(b) /\ SubSeq(b, Len(b) - Len(a) + 1, Len(b)) = a
\* (only for --free specs: a spec-level -- may end options before the marker, which then is data)
TailVerbatim ==
  (Done /\ ~Fam.specs[si].hasend /\ HasMarker(argv)) =>
     \A b \in Accepting(Ctx(Clean), Fam.specs[si].ast, argv) : IsSuffixOf(AfterMarker(argv), ArgValues(b))

\* C02 on the reference itself: on a --free spec without environment-backed options every accepting derivation is exactly the
\* item reading of the command line (CmdLine!ItemsOf): each option holds the values of its occurrences in command-line order,
\* the positionals are bound in order, nothing is invented, dropped or duplicated; a line with no item reading is rejected
ItemsHere == ItemsOf(ProgOf(si), argv, FALSE)
OccValues(items, o) == LET sel == SelectSeq(items, LAMBDA it : it.k = "occ" /\ it.o = o) IN [i \in 1..Len(sel) |-> sel[i].v]
PosValues(items) == LET sel == SelectSeq(items, LAMBDA it : it.k = "pos") IN [i \in 1..Len(sel) |-> sel[i].v]
OccOpts(items) == {items[i].o : i \in {j \in 1..Len(items) : items[j].k = "occ"}}
DerivationIsItemReading ==
  (Done /\ ~Fam.specs[si].hasend /\ env = {}) =>
     LET items == ItemsHere acc == Accepting(Ctx(Clean), Fam.specs[si].ast, argv) IN
     IF HasBad(items) THEN acc = {}
     ELSE \A d \in acc : /\ DOMAIN d.ob = OccOpts(items)
                          /\ \A o \in DOMAIN d.ob : d.ob[o] = OccValues(items, o)
                          /\ ArgValues(d) = PosValues(items)

\* the greedy deviation only ever loses sentences (it is a restriction of the clean semantics)
GreedyRestricts == Done => (out.accG \subseteq out.acc \/ out.uncl)
=============================================================================
