SPECIFICATION SpecFile
CONSTANTS MaxDepth = 0  ExiterReturns = FALSE
INVARIANTS C05 AtMostOnce ExitIsLast
PROPERTY Terminates
CHECK_DEADLOCK FALSE
