SPECIFICATION Spec
CONSTANTS Kinds <- KindsDef  MaxLen = 0  Seqs <- FileSeqs
INVARIANTS DescentMeetsGrammar PositionInside
CHECK_DEADLOCK FALSE
