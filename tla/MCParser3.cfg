SPECIFICATION Spec
CONSTANTS Kinds <- KindsDef  MaxLen = 3  Seqs <- AllSeqs
INVARIANTS DescentMeetsGrammar PositionInside
CHECK_DEADLOCK FALSE
