SPECIFICATION Spec
CONSTANTS Kinds <- KindsDef  MaxLen = 3
INVARIANTS DescentMeetsGrammar PositionInside
CHECK_DEADLOCK FALSE
