SPECIFICATION Spec
CONSTANTS FixEpsLoop = TRUE  FixSimplifyLoop = TRUE  FixTrailingDD = TRUE  FixGroupEnvExcl = TRUE
INVARIANTS AgreesWithRef StackBound SimplifyBound
PROPERTY Terminates
CHECK_DEADLOCK FALSE
