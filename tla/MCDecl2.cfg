SPECIFICATION Spec
CONSTANTS
  OptNames <- OptNamesDef
  ArgNames <- ArgNamesDef
  MaxDecls = 3
  MaxListLen = 2
INVARIANTS TableSound AcceptedOwnsAll
CHECK_DEADLOCK FALSE
