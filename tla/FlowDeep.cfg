SPECIFICATION Spec
CONSTANTS MaxDepth = 3  ExiterReturns = FALSE
INVARIANTS C05 AtMostOnce ExitIsLast
CHECK_DEADLOCK FALSE
