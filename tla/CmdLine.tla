------------------------------- MODULE CmdLine -------------------------------
(***************************************************************************)
(* Command-line tokens and the option scan of mow.cli                      *)
(* (internal/matcher/option.go: Match, matchLongOpt, matchShortOpt).       *)
(*                                                                         *)
(* A token is a sequence of 1-character strings (TLC cannot index a        *)
(* string): "-abov" is <<"-","a","b","o","v">>.  A command line w is a     *)
(* sequence of tokens.                                                     *)
(*                                                                         *)
(* A program P (the declarations the scan consults) is a record            *)
(*   P.short : [1-char string -> option key]   e.g. [a |-> "-a"]           *)
(*   P.long  : [string -> option key]          e.g. ["--out" |-> "-o"]     *)
(*   P.flags : set of option keys whose value type is a bool flag          *)
(* An option key is the option's first declared name.                      *)
(*                                                                         *)
(* Extract(P, o, w, dashSkip) removes the FIRST occurrence of option o     *)
(* from the leading run of option tokens of w.  One operator per branch    *)
(* of option.go so that TLC's coverage shows which branch an input took.   *)
(***************************************************************************)
EXTENDS Naturals, Sequences, FiniteSets, TLC

Dash == "-"
DD == <<"-", "-">>
IsDD(t) == t = DD
IsSingle(t) == t = <<"-">>
StartsDash(t) == Len(t) > 0 /\ t[1] = Dash
StartsDD(t) == Len(t) > 1 /\ t[1] = Dash /\ t[2] = Dash
TrueV == <<"t", "r", "u", "e">>

RECURSIVE Join(_)
Join(t) == IF Len(t) = 0 THEN "" ELSE t[1] \o Join(Tail(t))

RemoveAt(w, i) == SubSeq(w, 1, i - 1) \o SubSeq(w, i + 1, Len(w))
Remove2(w, i) == SubSeq(w, 1, i - 1) \o SubSeq(w, i + 2, Len(w))
ReplaceAt(w, i, t) == [w EXCEPT ![i] = t]

IndexOfEq(t) ==
  LET S == {i \in 1..Len(t) : t[i] = "="}
  IN IF S = {} THEN 0 ELSE CHOOSE i \in S : \A j \in S : i <= j

ShortOf(P, c) == IF c \in DOMAIN P.short THEN P.short[c] ELSE "none"
LongOf(P, name) == LET n == Join(name) IN IF n \in DOMAIN P.long THEN P.long[n] ELSE "none"
IsFlag(P, k) == k \in P.flags

\* results of looking at one token of the run
None == [ok |-> FALSE, adv |-> 0, v |-> <<>>, w |-> <<>>]          \* the run ends here for this scan
Hit(v, w) == [ok |-> TRUE, adv |-> 0, v |-> v, w |-> w]            \* own occurrence found: value, remaining line
Skip(n) == [ok |-> FALSE, adv |-> n, v |-> <<>>, w |-> <<>>]       \* another option's occurrence: step over n tokens

(* matchLongOpt *)
LongStep(P, o, w, i) ==
  LET t == w[i]
      e == IndexOfEq(t)
      name == IF e = 0 THEN t ELSE SubSeq(t, 1, e - 1)
      p == LongOf(P, name)
  IN IF p = "none" THEN None
     ELSE IF e > 0 THEN
        IF p # o THEN Skip(1)
        ELSE IF e = Len(t) THEN None
        ELSE Hit(SubSeq(t, e + 1, Len(t)), RemoveAt(w, i))
     ELSE IF IsFlag(P, p) THEN
        IF p # o THEN Skip(1) ELSE Hit(TrueV, RemoveAt(w, i))
     ELSE IF i + 1 > Len(w) THEN None
     ELSE IF p # o THEN Skip(2)
     ELSE IF StartsDash(w[i + 1]) THEN None
     ELSE Hit(w[i + 1], Remove2(w, i))

(* matchShortOpt, the loop over the letters of a folded token; rem = characters after the dash *)
RECURSIVE Fold(_, _, _, _, _)
Fold(P, o, w, i, j) ==
  LET t == w[i]
      rem == SubSeq(t, 2, Len(t))
  IN IF j > Len(rem) THEN Skip(1)
     ELSE LET p == ShortOf(P, rem[j]) IN
       IF p = "none" THEN None
       ELSE IF IsFlag(P, p) THEN
          IF p # o THEN Fold(P, o, w, i, j + 1)
          ELSE LET nr == SubSeq(rem, 1, j - 1) \o SubSeq(rem, j + 1, Len(rem)) IN
               IF nr = <<>> THEN Hit(TrueV, RemoveAt(w, i))
               ELSE Hit(TrueV, ReplaceAt(w, i, <<Dash>> \o nr))
       ELSE LET val == SubSeq(rem, j + 1, Len(rem))
                nr == SubSeq(rem, 1, j - 1) IN
          IF val = <<>> THEN
             IF i + 1 > Len(w) THEN None
             ELSE IF p # o THEN Skip(2)
             ELSE IF StartsDash(w[i + 1]) THEN None
             ELSE IF nr = <<>> THEN Hit(w[i + 1], Remove2(w, i))
             ELSE Hit(w[i + 1], RemoveAt(ReplaceAt(w, i, <<Dash>> \o nr), i + 1))
          ELSE IF p # o THEN Skip(1)
          ELSE IF nr = <<>> THEN Hit(val, RemoveAt(w, i))
          ELSE Hit(val, ReplaceAt(w, i, <<Dash>> \o nr))

(* matchShortOpt: the "-x=value" form first, then the folded form *)
ShortStep(P, o, w, i) ==
  LET t == w[i] IN
  IF Len(t) >= 3 /\ t[3] = "=" THEN
     LET p == ShortOf(P, t[2]) IN
     IF p # o THEN Skip(1)
     ELSE IF Len(t) = 3 THEN None
     ELSE Hit(SubSeq(t, 4, Len(t)), RemoveAt(w, i))
  ELSE Fold(P, o, w, i, 1)

(* opt.Match: the scan over the leading run *)
RECURSIVE Scan(_, _, _, _, _)
Scan(P, o, w, i, dashSkip) ==
  IF i > Len(w) THEN None
  ELSE LET t == w[i] IN
    IF IsSingle(t) THEN (IF dashSkip THEN Scan(P, o, w, i + 1, dashSkip) ELSE None)
    ELSE IF IsDD(t) \/ ~StartsDash(t) THEN None
    ELSE LET r == IF StartsDD(t) THEN LongStep(P, o, w, i) ELSE ShortStep(P, o, w, i) IN
         IF r.ok THEN r
         ELSE IF r.adv = 0 THEN None
         ELSE Scan(P, o, w, i + r.adv, dashSkip)

Extract(P, o, w, dashSkip) == Scan(P, o, w, 1, dashSkip)

AllKeys(P) == {P.short[c] : c \in DOMAIN P.short} \cup {P.long[n] : n \in DOMAIN P.long}

\* some declared option can be extracted from the leading run of w
AnyExtractable(P, w, dashSkip) == \E o \in AllKeys(P) : Extract(P, o, w, dashSkip).ok

(***************************************************************************)
(* Items of a command line (C10, C11): the sequence                        *)
(*   pos(t) | marker | occ(opt, v)                                         *)
(* obtained by reading the line left to right the way the scan does, an    *)
(* occurrence at a time.  "bad" marks a line whose next option token is    *)
(* not an occurrence of a declared option (it has no items reading).       *)
(***************************************************************************)
Pos(t) == [k |-> "pos", o |-> "", v |-> t]
Marker == [k |-> "marker", o |-> "", v |-> <<>>]
Occ(o, v) == [k |-> "occ", o |-> o, v |-> v]
Bad == [k |-> "bad", o |-> "", v |-> <<>>]

\* first occurrence at the head of w: <<item, rest>>
HeadOcc(P, w) ==
  LET t == w[1] IN
  IF StartsDD(t) THEN
     LET e == IndexOfEq(t)
         name == IF e = 0 THEN t ELSE SubSeq(t, 1, e - 1)
         p == LongOf(P, name) IN
     IF p = "none" THEN <<Bad, <<>>>>
     ELSE IF e > 0 THEN (IF e = Len(t) THEN <<Bad, <<>>>> ELSE <<Occ(p, SubSeq(t, e + 1, Len(t))), Tail(w)>>)
     ELSE IF IsFlag(P, p) THEN <<Occ(p, TrueV), Tail(w)>>
     ELSE IF Len(w) < 2 \/ StartsDash(w[2]) THEN <<Bad, <<>>>>
     ELSE <<Occ(p, w[2]), SubSeq(w, 3, Len(w))>>
  ELSE IF Len(t) >= 3 /\ t[3] = "=" THEN
     LET p == ShortOf(P, t[2]) IN
     IF p = "none" \/ Len(t) = 3 THEN <<Bad, <<>>>> ELSE <<Occ(p, SubSeq(t, 4, Len(t))), Tail(w)>>
  ELSE
     LET p == ShortOf(P, t[2]) IN
     IF p = "none" THEN <<Bad, <<>>>>
     ELSE IF IsFlag(P, p) THEN
        <<Occ(p, TrueV), IF Len(t) = 2 THEN Tail(w) ELSE <<<<Dash>> \o SubSeq(t, 3, Len(t))>> \o Tail(w)>>
     ELSE IF Len(t) > 2 THEN <<Occ(p, SubSeq(t, 3, Len(t))), Tail(w)>>
     ELSE IF Len(w) < 2 \/ StartsDash(w[2]) THEN <<Bad, <<>>>>
     ELSE <<Occ(p, w[2]), SubSeq(w, 3, Len(w))>>

RECURSIVE ItemsOf(_, _, _)
ItemsOf(P, w, ended) ==
  IF Len(w) = 0 THEN <<>>
  ELSE LET t == w[1] IN
    IF ended THEN <<Pos(t)>> \o ItemsOf(P, Tail(w), TRUE)
    ELSE IF IsDD(t) THEN <<Marker>> \o ItemsOf(P, Tail(w), TRUE)
    ELSE IF IsSingle(t) \/ ~StartsDash(t) THEN <<Pos(t)>> \o ItemsOf(P, Tail(w), FALSE)
    ELSE LET h == HeadOcc(P, w) IN
         IF h[1].k = "bad" THEN <<Bad>> ELSE <<h[1]>> \o ItemsOf(P, h[2], FALSE)

HasBad(items) == \E i \in 1..Len(items) : items[i].k = "bad"
=============================================================================
