SPECIFICATION Spec
CONSTANTS FixEpsLoop = FALSE  FixSimplifyLoop = TRUE  FixTrailingDD = TRUE  FixGroupEnvExcl = TRUE
INVARIANTS AgreesWithRef StackBound SimplifyBound
PROPERTY Terminates
CHECK_DEADLOCK FALSE
