------------------------------ MODULE StructEq ------------------------------
(***************************************************************************)
(* C01 (structural part, inputs of unbounded length), C16: language        *)
(* equivalence, over the abstract alphabet of matcher labels, between the  *)
(* automaton the REAL parser produced for a spec string (dumped through    *)
(* the guarded export after Prepare: no shortcut left) and the Thompson    *)
(* automaton this module builds from the spec's AST.  TLC explores the     *)
(* reachable pairs of state subsets (two subset constructions in lock      *)
(* step); equal acceptance in every reachable pair <=> equal languages,    *)
(* for label sequences of ANY length.  This binds the artefact of the real *)
(* code, not a model of it.                                                *)
(*                                                                         *)
(* dumps.json: sequence of [ast, term (seq of BOOLEAN, state 0 first),     *)
(*             trans (per state: seq of [l, n]), label strings l]          *)
(***************************************************************************)
EXTENDS Naturals, Sequences, FiniteSets, TLC, Json

Dumps == JsonDeserialize("dumps.json")
ND == Len(Dumps)

RECURSIVE JoinKeys(_)
JoinKeys(xs) == IF Len(xs) = 0 THEN "" ELSE IF Len(xs) = 1 THEN xs[1] ELSE xs[1] \o "," \o JoinKeys(Tail(xs))
LabelOf(e) == IF e.k = "arg" THEN "A:" \o e.a
              ELSE IF e.k = "opt" THEN "O:" \o e.a
              ELSE IF e.k = "end" THEN "E"
              ELSE "G:" \o JoinKeys(e.xs)

\* reference NFA from the AST: [n, eps (set of <<a,b>>), sym (set of <<a,l,b>>)], builders return [m, s, t]
RECURSIVE B(_, _), BList(_, _, _, _)
Empty == [n |-> 0, eps |-> {}, sym |-> {}]
B(m, e) ==
  IF e.k \in {"arg", "opt", "grp", "end"} THEN
     [m |-> [m EXCEPT !.n = @ + 2, !.sym = @ \cup {<<m.n + 1, LabelOf(e), m.n + 2>>}], s |-> m.n + 1, t |-> m.n + 2]
  ELSE IF e.k = "seq" THEN
     LET s0 == m.n + 1 IN BList([m EXCEPT !.n = @ + 1], e.xs, 1, [s |-> s0, t |-> s0, mode |-> "seq"])
  ELSE IF e.k = "alt" THEN
     LET s0 == m.n + 1 t0 == m.n + 2 IN BList([m EXCEPT !.n = @ + 2], e.xs, 1, [s |-> s0, t |-> t0, mode |-> "alt"])
  ELSE IF e.k = "optional" THEN
     LET r == B(m, e.xs[1]) IN [r EXCEPT !.m.eps = @ \cup {<<r.s, r.t>>}]
  ELSE \* rep: one or more
     LET r == B(m, e.xs[1]) s0 == r.m.n + 1 t0 == r.m.n + 2 IN
     [m |-> [r.m EXCEPT !.n = @ + 2, !.eps = @ \cup {<<s0, r.s>>, <<r.t, t0>>, <<r.t, r.s>>}], s |-> s0, t |-> t0]
BList(m, xs, i, acc) ==
  IF i > Len(xs) THEN [m |-> m, s |-> acc.s, t |-> acc.t]
  ELSE LET r == B(m, xs[i]) IN
       IF acc.mode = "seq" THEN BList([r.m EXCEPT !.eps = @ \cup {<<acc.t, r.s>>}], xs, i + 1, [acc EXCEPT !.t = r.t])
       ELSE BList([r.m EXCEPT !.eps = @ \cup {<<acc.s, r.s>>, <<r.t, acc.t>>}], xs, i + 1, acc)

RefNFAs == [i \in 1..ND |-> B(Empty, Dumps[i].ast)]

RECURSIVE Closure(_, _)
Closure(S, eps) == LET nx == S \cup {p[2] : p \in {q \in eps : q[1] \in S}} IN IF nx = S THEN S ELSE Closure(nx, eps)

Labels(i) == {p[2] : p \in RefNFAs[i].m.sym}
             \cup UNION {{Dumps[i].trans[s][j].l : j \in 1..Len(Dumps[i].trans[s])} : s \in 1..Len(Dumps[i].trans)}
RStep(i, rs, l) == Closure({p[3] : p \in {q \in RefNFAs[i].m.sym : q[1] \in rs /\ q[2] = l}}, RefNFAs[i].m.eps)
GStep(i, gs, l) == UNION {{Dumps[i].trans[g + 1][j].n : j \in {k \in 1..Len(Dumps[i].trans[g + 1]) : Dumps[i].trans[g + 1][k].l = l}} : g \in gs}

VARIABLES i, rs, gs, path
Init == /\ i \in 1..ND
        /\ rs = Closure({RefNFAs[i].s}, RefNFAs[i].m.eps)
        /\ gs = {0}
        /\ path = <<>>
Next == \E l \in Labels(i) :
          /\ rs' = RStep(i, rs, l) /\ gs' = GStep(i, gs, l)
          /\ (rs' # {} \/ gs' # {})
          /\ path' = Append(path, l) /\ UNCHANGED i
Spec == Init /\ [][Next]_<<i, rs, gs, path>>
View == <<i, rs, gs>>
SameAcceptance == (RefNFAs[i].t \in rs) <=> (\E g \in gs : Dumps[i].term[g + 1])
\* after a spec-level -- no option label can follow on any path of the compiled automaton (parser: rejectOptions)
=============================================================================
