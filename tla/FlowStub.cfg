SPECIFICATION Spec
CONSTANTS MaxDepth = 1  ExiterReturns = TRUE
INVARIANTS C05
CHECK_DEADLOCK FALSE
