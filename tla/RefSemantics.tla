---------------------------- MODULE RefSemantics ----------------------------
(***************************************************************************)
(* Reference semantics of mow.cli specs (DESIGN.md section 3): the set of  *)
(* derivations a spec AST admits for a command line.  Declarative on       *)
(* purpose: this is the oracle, not a model of the implementation.         *)
(*                                                                         *)
(* AST node: [k, a, xs]                                                    *)
(*   k = "arg"  a = argument name                                          *)
(*   k = "opt"  a = option key                                             *)
(*   k = "grp"  xs = sequence of option keys (folded group or OPTIONS)     *)
(*   k = "end"  the spec-level --                                          *)
(*   k = "seq" | "alt"  xs = children;  k = "optional" | "rep"  xs = <<e>> *)
(*                                                                         *)
(* Context C = [P, env, D]: program (CmdLine.tla), set of env-backed       *)
(* option keys, deviation/bracketing switches D:                           *)
(*   D.dashSkip     Dev_DashSkip      (fixed in /repo; kept as a switch)   *)
(*   D.greedy       Dev_GreedyGroup   (known finding D8)                   *)
(*   D.trailingDD   Dev_TrailingDD    (fixed)                              *)
(*   D.groupEnvExcl Dev_GroupEnvExcl  (fixed)                              *)
(*   D.groupEnvSat  bracketing variant for exclusion (iii)                 *)
(*   D.endLate      bracketing variant for exclusion (iv)                  *)
(***************************************************************************)
EXTENDS CmdLine

Clean == [dashSkip |-> FALSE, greedy |-> FALSE, trailingDD |-> FALSE, groupEnvExcl |-> FALSE,
          groupEnvSat |-> FALSE, endLate |-> FALSE]

\* matching state: [w, ended, ob, ab]
\*   ob = option bindings: function option key -> sequence of values (Extract always takes the FIRST
\*        occurrence of an option, so the values of one option are bound in command-line order whatever
\*        order the elements are matched in; derivations that differ only in that order are one state)
\*   ab = positional bindings, in order: sequence of <<argument name, token>>
AddO(ob, o, v) == IF o \in DOMAIN ob THEN [ob EXCEPT ![o] = Append(@, v)] ELSE ob @@ (o :> <<v>>)
InitState(argv) == [w |-> argv, ended |-> FALSE, ob |-> <<>>, ab |-> <<>>]
Norm(s) == IF ~s.ended /\ Len(s.w) > 0 /\ IsDD(s.w[1])
           THEN [s EXCEPT !.w = Tail(s.w), !.ended = TRUE] ELSE s

RECURSIVE Match(_, _, _), MatchSeq(_, _, _, _), RepFix(_, _, _, _), GrpFix(_, _, _, _),
          GrpGreedy(_, _, _, _, _), GrpStepFrom(_, _, _, _, _)

\* one "try" of a group from listed index k on: set of <<state, excluded>> successors
GrpStepFrom(C, keys, s, ex, k) ==
  IF k > Len(keys) \/ Len(s.w) = 0 THEN {}
  ELSE LET o == keys[k] IN
    IF o \in ex THEN GrpStepFrom(C, keys, s, ex, k + 1)
    ELSE LET r == Extract(C.P, o, s.w, C.D.dashSkip) IN
      IF r.ok THEN
         LET hit == <<[s EXCEPT !.w = r.w, !.ob = AddO(@, o, r.v)],
                      IF C.D.groupEnvExcl /\ o \in C.env THEN ex \cup {o} ELSE ex>> IN
         IF C.D.greedy THEN {hit} ELSE {hit} \cup GrpStepFrom(C, keys, s, ex, k + 1)
      ELSE IF o \in C.env /\ C.D.groupEnvSat THEN
         LET hit == <<s, ex \cup {o}>> IN
         IF C.D.greedy THEN {hit} ELSE {hit} \cup GrpStepFrom(C, keys, s, ex, k + 1)
      ELSE GrpStepFrom(C, keys, s, ex, k + 1)

GrpFix(C, keys, frontier, seen) ==
  LET nxt == (UNION {GrpStepFrom(C, keys, p[1], p[2], 1) : p \in frontier}) \ seen IN
  IF nxt = {} THEN seen ELSE GrpFix(C, keys, nxt, seen \cup nxt)

GrpGreedy(C, keys, s, ex, n) ==
  LET nx == GrpStepFrom(C, keys, s, ex, 1) IN
  IF nx = {} THEN (IF n > 0 THEN {s} ELSE {})
  ELSE LET p == CHOOSE q \in nx : TRUE IN GrpGreedy(C, keys, p[1], p[2], n + 1)

Match(C, e, s0) ==
  IF e.k = "arg" THEN
     LET s == Norm(s0) IN
     IF Len(s.w) = 0 THEN {}
     ELSE IF ~s.ended /\ StartsDash(s.w[1]) /\ ~IsSingle(s.w[1]) THEN {}
     ELSE {[s EXCEPT !.w = Tail(s.w), !.ab = Append(@, <<e.a, s.w[1]>>)]}
  ELSE IF e.k = "opt" THEN
     LET s == Norm(s0)
         r == IF s.ended \/ Len(s.w) = 0 THEN None ELSE Extract(C.P, e.a, s.w, C.D.dashSkip) IN
     IF r.ok THEN {[s EXCEPT !.w = r.w, !.ob = AddO(@, e.a, r.v)]}
     ELSE IF e.a \in C.env THEN {s} ELSE {}
  ELSE IF e.k = "grp" THEN
     LET s == Norm(s0) IN
     IF s.ended \/ Len(s.w) = 0 THEN {}
     ELSE IF C.D.greedy THEN GrpGreedy(C, e.xs, s, {}, 0)
     ELSE {p[1] : p \in GrpFix(C, e.xs, {<<s, {}>>}, {})}
  ELSE IF e.k = "end" THEN
     LET s == Norm(s0) IN
     IF C.D.endLate /\ ~s.ended /\ AnyExtractable(C.P, s.w, C.D.dashSkip) THEN {}
     ELSE {[s EXCEPT !.ended = TRUE]}
  ELSE IF e.k = "seq" THEN MatchSeq(C, e.xs, 1, {s0})
  ELSE IF e.k = "alt" THEN UNION {Match(C, e.xs[i], s0) : i \in 1..Len(e.xs)}
  ELSE IF e.k = "optional" THEN {s0} \cup Match(C, e.xs[1], s0)
  ELSE IF e.k = "rep" THEN LET f == Match(C, e.xs[1], s0) IN RepFix(C, e.xs[1], f, f)
  ELSE Assert(FALSE, <<"bad node", e>>)

MatchSeq(C, xs, i, cur) ==
  IF i > Len(xs) \/ cur = {} THEN cur
  ELSE MatchSeq(C, xs, i + 1, UNION {Match(C, xs[i], s) : s \in cur})

RepFix(C, e, frontier, seen) ==
  LET nxt == (UNION {Match(C, e, s) : s \in frontier}) \ seen IN
  IF nxt = {} THEN seen ELSE RepFix(C, e, nxt, seen \cup nxt)

\* final states with nothing left: the accepting derivations
Finals(C, ast, argv) ==
  LET outs == Match(C, ast, InitState(argv))
      fin == {IF C.D.trailingDD THEN s ELSE Norm(s) : s \in outs} IN
  {x \in fin : Len(x.w) = 0}

Accepting(C, ast, argv) == {[ob |-> s.ob, ab |-> s.ab] : s \in Finals(C, ast, argv)}

\* binding map of a derivation: per variable <<kind, name>> the sequence of values bound, in order
ArgNames(d) == {d.ab[i][1] : i \in 1..Len(d.ab)}
ArgVals(d, a) == LET sel == SelectSeq(d.ab, LAMBDA x : x[1] = a) IN [i \in 1..Len(sel) |-> sel[i][2]]
BindMap(d) == [var \in ({<<"O", o>> : o \in DOMAIN d.ob} \cup {<<"A", a>> : a \in ArgNames(d)}) |->
                 IF var[1] = "O" THEN d.ob[var[2]] ELSE ArgVals(d, var[2])]
AccMaps(C, ast, argv) == {BindMap(d) : d \in Accepting(C, ast, argv)}

\* exclusion (ii): a folded short token carrying "=" after a flag ("-ab=v"): the first "=" stands behind at least two letters of which
\* all but the last are flags.  (When a valued option comes earlier, the rest of the token - "=" included - is its attached value and
\* the token is an ordinary occurrence: "-oae=z" is -o with the value ae=z.)
FirstEq(t) == CHOOSE i \in 3..Len(t) : t[i] = "=" /\ \A j \in 3..(i - 1) : t[j] # "="
IsFoldedEq(P, t) ==
  /\ Len(t) >= 2 /\ t[1] = Dash /\ t[2] # Dash /\ (\E i \in 4..Len(t) : t[i] = "=") /\ ~(Len(t) >= 3 /\ t[3] = "=")
  /\ \A j \in 2..(FirstEq(t) - 2) : ShortOf(P, t[j]) = "none" \/ IsFlag(P, ShortOf(P, t[j]))
\* exclusion (i): help tokens
IsHelpTok(t) == t = <<"-", "h">> \/ t = <<"-", "-", "h", "e", "l", "p">>

RECURSIVE BeforeMarker(_)
BeforeMarker(w) == IF Len(w) = 0 \/ IsDD(w[1]) THEN <<>> ELSE <<w[1]>> \o BeforeMarker(Tail(w))

ShapeUnclaimed(P, argv) ==
  \E i \in 1..Len(argv) : IsFoldedEq(P, argv[i]) \/ IsHelpTok(argv[i])

=============================================================================
