-------------------------------- MODULE Help --------------------------------
(***************************************************************************)
(* C17: commands.go: printHelp as a function from a command's declarations *)
(* to an abstract document (sequence of entries).  Text is pre-split by    *)
(* the recorder: a description is a sequence of trimmed lines, an          *)
(* environment list a sequence of variable names.  The harness parses the  *)
(* library's real output back into the same shape; this module checks      *)
(* every recorded (declaration, document) pair (helpcases.json).           *)
(*                                                                         *)
(* case = [decl, long, doc]                                                *)
(* decl = [path, spec, hassubs, desc, longdesc,                            *)
(*         args: seq of [name, desc, env, def, hide],                      *)
(*         opts: seq of [names (with dashes), desc, env, def, hide],       *)
(*         cmds: seq of [aliases, desc, hidden]]                           *)
(*   desc: sequence of lines; env: sequence of names; def: the default as  *)
(*   the value type prints it ("" = none, as captured at declaration)      *)
(* doc  = sequence of [k, a, b]                                            *)
(***************************************************************************)
EXTENDS Naturals, Sequences, FiniteSets, TLC, Json

File == JsonDeserialize("helpcases.json")
Cases == File.cases
\* TLC cannot take a string apart: the recorder lists which option names are short ("-x"); Python checks len = 2
ShortNames == {File.shortnames[i] : i \in DOMAIN File.shortnames}

E(k, a, b) == [k |-> k, a |-> a, b |-> b]

RECURSIVE JoinWith(_, _)
JoinWith(xs, sep) == IF Len(xs) = 0 THEN "" ELSE IF Len(xs) = 1 THEN xs[1] ELSE xs[1] \o sep \o JoinWith(Tail(xs), sep)

\* formatEnvVarsForHelp / formatValueForHelp
EnvText(env) == IF Len(env) = 0 THEN "" ELSE "(env " \o JoinWith([i \in 1..Len(env) |-> "$" \o env[i]], ", ") \o ")"
DefText(def, hide) == IF hide \/ def = "" THEN "" ELSE "(default " \o def \o ")"

\* joinStrings(desc, env, value) then split into lines: the suffixes go on the last line of the description
Suffix(env, def, hide) == LET e == EnvText(env) d == DefText(def, hide) IN
                          IF e = "" THEN d ELSE IF d = "" THEN e ELSE e \o " " \o d
RowLines(desc, env, def, hide) ==
  LET s == Suffix(env, def, hide) IN
  IF s = "" THEN (IF Len(desc) = 0 THEN <<"">> ELSE desc)
  ELSE IF Len(desc) = 0 THEN <<s>>
  ELSE [i \in 1..Len(desc) |-> IF i = Len(desc) THEN (IF desc[i] = "" THEN s ELSE desc[i] \o " " \o s) ELSE desc[i]]

\* printTabbedRow: first line with the name, the others with an empty name column
Rows(name, lines) == [i \in 1..Len(lines) |-> E("row", IF i = 1 THEN name ELSE "", lines[i])]

\* formatOptNamesForHelp: first short and first long name
IsShort(n) == n \in ShortNames
FirstOf(names, short) ==
  LET S == {i \in 1..Len(names) : IF short THEN IsShort(names[i]) ELSE ~IsShort(names[i])} IN
  IF S = {} THEN "" ELSE names[CHOOSE i \in S : \A j \in S : i <= j]
OptName(names) ==
  LET s == FirstOf(names, TRUE) l == FirstOf(names, FALSE) IN
  IF s # "" /\ l # "" THEN s \o ", " \o l ELSE IF s # "" THEN s ELSE IF l # "" THEN "    " \o l ELSE ""

RECURSIVE Flatten(_)
Flatten(xss) == IF Len(xss) = 0 THEN <<>> ELSE xss[1] \o Flatten(Tail(xss))

Visible(cmds) == SelectSeq(cmds, LAMBDA c : ~c.hidden)

Doc(d, long) ==
  LET usage == d.path \o (IF d.spec = "" THEN "" ELSE " " \o d.spec) \o (IF d.hassubs THEN " COMMAND [arg...]" ELSE "")
      desc == IF long /\ Len(d.longdesc) > 0 THEN d.longdesc ELSE d.desc
      vis == Visible(d.cmds)
  IN <<E("usage", usage, "")>>
     \o (IF Len(desc) = 0 THEN <<>> ELSE <<E("desc", JoinWith(desc, "\n"), "")>>)
     \o (IF Len(d.args) = 0 THEN <<>> ELSE
           <<E("section", "Arguments:", "")>> \o Flatten([i \in 1..Len(d.args) |->
               Rows(d.args[i].name, RowLines(d.args[i].desc, d.args[i].env, d.args[i].def, d.args[i].hide))]))
     \o (IF Len(d.opts) = 0 THEN <<>> ELSE
           <<E("section", "Options:", "")>> \o Flatten([i \in 1..Len(d.opts) |->
               Rows(OptName(d.opts[i].names), RowLines(d.opts[i].desc, d.opts[i].env, d.opts[i].def, d.opts[i].hide))]))
     \o (IF Len(vis) = 0 THEN <<>> ELSE
           <<E("section", "Commands:", "")>> \o [i \in 1..Len(vis) |-> E("row", JoinWith(vis[i].aliases, ", "), vis[i].desc)]
           \o <<E("footer", d.path, "")>>)

VARIABLES ci, verdict
Init == ci \in DOMAIN Cases /\ verdict = "todo"
Check == /\ verdict = "todo"
         /\ LET c == Cases[ci] want == Doc(c.decl, c.long) IN
            /\ verdict' = IF want = c.doc THEN "ok" ELSE "mismatch"
            /\ PrintT("HELP " \o ToJson([ci |-> ci - 1, ok |-> (want = c.doc), want |-> want]))
         /\ UNCHANGED ci
Spec == Init /\ [][Check]_<<ci, verdict>>
=============================================================================
