----------------------------- MODULE MatchTrace -----------------------------
(***************************************************************************)
(* Binding B at the level of single matcher calls: every call of           *)
(* Matcher.Match the real backtracking search made (recorded by the        *)
(* guarded decorators, verif_export.go: VerifTraceMatchers) is a record    *)
(*   [prog, env, m (matcher: k, a, xs), args, ro, ok, rem, ro2, vals]      *)
(* and must be exactly what tla/Matchers.tla computes for those arguments: *)
(* success, remaining arguments (the token surgery), options-ended flag    *)
(* and the values recorded by this call.                                   *)
(* matchtrace.json: [progs, events]                                        *)
(***************************************************************************)
EXTENDS Matchers, Json

In == JsonDeserialize("matchtrace.json")
SeqToSet(s) == {s[i] : i \in DOMAIN s}
ProgOf(i) == LET p == In.progs[i + 1] IN [short |-> p.short, long |-> p.long, flags |-> SeqToSet(p.flags)]

VARIABLES ei, verdict
Init == ei \in DOMAIN In.events /\ verdict = "todo"

\* values this call recorded, as the decorator saw them: a sequence of [name, values] -> compare as a set of pairs
ValsOf(b) == {<<b[i][2], b[i][3]>> : i \in 1..Len(b)}
RECURSIVE Pairs(_)
Pairs(vs) == UNION {{<<vs[i].name, vs[i].vals[j]>> : j \in 1..Len(vs[i].vals)} : i \in 1..Len(vs)}
\* per name the values in order
SeqFor(b, n) == LET sel == SelectSeq(b, LAMBDA x : x[2] = n) IN [i \in 1..Len(sel) |-> sel[i][3]]
SameVals(b, vs) == /\ {b[i][2] : i \in 1..Len(b)} = {vs[i].name : i \in 1..Len(vs)}
                   /\ \A i \in 1..Len(vs) : SeqFor(b, vs[i].name) = vs[i].vals

Expected(e) == MMatch(ProgOf(e.prog), TRUE, e.m, e.args, e.ro, SeqToSet(e.env))
Agrees(e) == LET x == Expected(e) IN
             /\ x.ok = e.ok
             /\ (e.ok => (x.rem = e.rem /\ x.ro = e.ro2 /\ SameVals(x.b, e.vals)))

Check == /\ verdict = "todo"
         /\ LET e == In.events[ei] IN
            /\ verdict' = IF Agrees(e) THEN "ok" ELSE "mismatch"
            /\ IF Agrees(e) THEN TRUE
               ELSE PrintT("MT " \o ToJson([ei |-> ei - 1, want |-> Expected(e)]))
         /\ UNCHANGED ei
Spec == Init /\ [][Check]_<<ei, verdict>>
=============================================================================
