SPECIFICATION Spec
INVARIANTS PositionalsInOrder TailVerbatim
CHECK_DEADLOCK FALSE
