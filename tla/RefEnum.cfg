SPECIFICATION Spec
INVARIANTS PositionalsInOrder TailVerbatim DerivationIsItemReading
CHECK_DEADLOCK FALSE
