----------------------------- MODULE SpecLexer -----------------------------
(***************************************************************************)
(* C08 (lexical part), C03: internal/lexer.Tokenize as a state machine     *)
(* (one action per iteration of the scanner loop, one CASE arm per case of *)
(* the Go switch, inner "for" loops as recursive operators), next to the   *)
(* declarative token grammar (maximal munch, RefLex).  Positions are       *)
(* 0-based as in the Go code; s[p+1] is the character at position p.       *)
(* Characters are class representatives; the harness concretises each      *)
(* string with two representatives per class.  Every finished run is       *)
(* printed ("LEX {json}") and replayed through lexer.Tokenize.             *)
(***************************************************************************)
EXTENDS Integers, Sequences, FiniteSets, TLC, Json

CONSTANTS Strings,            \* the set of strings to explore (sequences of 1-character strings)
          FixDanglingDash,     \* TRUE: '-' followed by neither a letter nor '-' is an error (candidate fix D3)
          FixDblDashFollow     \* TRUE: "--" is the marker unless a long-option character or '-' follows (D6)

Upper == {"A", "B", "C", "D", "E", "F", "G", "H", "I", "J", "K", "L", "M", "N", "O", "P", "Q", "R", "S", "T", "U", "V", "W", "X", "Y", "Z"}
Lower == {"a", "b", "c", "d", "e", "f", "g", "h", "i", "j", "k", "l", "m", "n", "o", "p", "q", "r", "s", "t", "u", "v", "w", "x", "y", "z"}
Digit == {"0", "1", "2", "3", "4", "5", "6", "7", "8", "9"}
IsU(c) == c \in Upper
IsL(c) == c \in Upper \cup Lower
IsD(c) == c \in Digit
OkInArg(c) == IsU(c) \/ IsD(c) \/ c = "_"
OkLong(c, first) == IsL(c) \/ IsD(c) \/ c = "_" \/ (~first /\ c = "-")
OPTIONS == <<"O", "P", "T", "I", "O", "N", "S">>

At(s, p) == s[p + 1]                       \* character at 0-based position p
Slice(s, a, b) == SubSeq(s, a + 1, b)      \* s[a:b]
Tok(t, v, p) == [typ |-> t, val |-> v, pos |-> p]

RECURSIVE ScanLetters(_,_), ScanArg(_,_)   \* smallest q >= p such that q = eof or s[q] is not in the class
ScanLetters(s, p) == IF p < Len(s) /\ IsL(At(s, p)) THEN ScanLetters(s, p + 1) ELSE p
ScanArg(s, p) == IF p < Len(s) /\ OkInArg(At(s, p)) THEN ScanArg(s, p + 1) ELSE p
RECURSIVE ScanLong(_,_,_)
ScanLong(s, p, p0) == IF p < Len(s) /\ OkLong(At(s, p), p = p0) THEN ScanLong(s, p + 1, p0) ELSE p
RECURSIVE ScanUntilGt(_,_)
ScanUntilGt(s, p) == IF p < Len(s) /\ At(s, p) # ">" THEN ScanUntilGt(s, p + 1) ELSE p

\* ------------------------------------------------------------------ the scanner, as in the code
VARIABLES str, pos, toks, err,     \* err = -1: none; otherwise the reported position
          emitted
vars == <<str, pos, toks, err, emitted>>

Init == str \in Strings /\ pos = 0 /\ toks = <<>> /\ err = -1 /\ emitted = FALSE

Emit(t, np) == /\ toks' = Append(toks, t) /\ pos' = np /\ UNCHANGED err
Fail(p) == /\ err' = p /\ UNCHANGED <<pos, toks>>
Eof == Len(str)

Step ==
  /\ err = -1 /\ pos < Eof
  /\ LET c == At(str, pos) IN
     CASE c \in {" ", "\t"} -> pos' = pos + 1 /\ UNCHANGED <<toks, err>>
       [] c = "[" -> Emit(Tok("OpenSq", <<c>>, pos), pos + 1)
       [] c = "]" -> Emit(Tok("CloseSq", <<c>>, pos), pos + 1)
       [] c = "(" -> Emit(Tok("OpenPar", <<c>>, pos), pos + 1)
       [] c = ")" -> Emit(Tok("ClosePar", <<c>>, pos), pos + 1)
       [] c = "|" -> Emit(Tok("Choice", <<c>>, pos), pos + 1)
       [] c = "." ->
            IF pos + 1 >= Eof \/ At(str, pos + 1) # "." THEN Fail(pos + 1)
            ELSE IF pos + 2 >= Eof \/ At(str, pos + 2) # "." THEN Fail(pos + 2)
            ELSE Emit(Tok("Rep", <<".", ".", ".">>, pos), pos + 3)
       [] c = "-" ->
            IF pos + 1 >= Eof THEN Fail(pos + 1)
            ELSE LET o == At(str, pos + 1) IN
              IF IsL(o) THEN
                 LET q == ScanLetters(str, pos + 2) IN
                 IF q < Eof /\ At(str, q) = "-" THEN Fail(q)   \* token appended first in the code, but nil is returned
                 ELSE IF q - pos > 2 THEN Emit(Tok("OptSeq", Slice(str, pos + 1, q), pos), q)
                 ELSE Emit(Tok("ShortOpt", Slice(str, pos, q), pos), q)
              ELSE IF o = "-" THEN
                 LET p2 == pos + 2 IN
                 IF p2 = Eof \/ (IF FixDblDashFollow THEN ~OkLong(At(str, p2), FALSE) ELSE At(str, p2) = " ")
                 THEN Emit(Tok("DblDash", <<"-", "-">>, pos), p2)
                 ELSE LET q == ScanLong(str, p2, p2) IN
                      IF q - pos = 2 THEN Fail(q) ELSE Emit(Tok("LongOpt", Slice(str, pos, q), pos), q)
              ELSE IF FixDanglingDash THEN Fail(pos + 1)
              ELSE pos' = pos + 1 /\ UNCHANGED <<toks, err>>      \* the '-' is silently dropped
       [] c = "=" ->
            IF pos + 1 >= Eof \/ At(str, pos + 1) # "<" THEN Fail(pos + 1)
            ELSE LET q == ScanUntilGt(str, pos + 1) IN
                 IF q >= Eof THEN Fail(q)
                 ELSE IF q - pos = 2 THEN Fail(q)
                 ELSE Emit(Tok("OptValue", Slice(str, pos, q + 1), pos), q + 1)
       [] OTHER ->
            IF IsU(c) THEN
               LET q == ScanArg(str, pos + 1) v == Slice(str, pos, q) IN
               Emit(Tok(IF v = OPTIONS THEN "Options" ELSE "Arg", v, pos), q)
            ELSE Fail(pos)
  /\ UNCHANGED <<str, emitted>>

Done == err # -1 \/ pos >= Eof


\* ------------------------------------------------------------------ the token grammar, declaratively
\* RefLex(s, p) = [ok, toks, q]: maximal munch from position p; q = where no rule applies
RECURSIVE RefLex(_,_,_)
RefLex(s, p, acc) ==
  IF p >= Len(s) THEN [ok |-> TRUE, toks |-> acc, q |-> p]
  ELSE LET c == At(s, p)
           n == Len(s)
           Go(t, np) == RefLex(s, np, Append(acc, t))
           Bad == [ok |-> FALSE, toks |-> <<>>, q |-> p]
  IN CASE c \in {" ", "\t"} -> RefLex(s, p + 1, acc)
       [] c = "[" -> Go(Tok("OpenSq", <<c>>, p), p + 1)
       [] c = "]" -> Go(Tok("CloseSq", <<c>>, p), p + 1)
       [] c = "(" -> Go(Tok("OpenPar", <<c>>, p), p + 1)
       [] c = ")" -> Go(Tok("ClosePar", <<c>>, p), p + 1)
       [] c = "|" -> Go(Tok("Choice", <<c>>, p), p + 1)
       [] c = "." -> IF p + 2 < n /\ At(s, p + 1) = "." /\ At(s, p + 2) = "." THEN Go(Tok("Rep", <<".", ".", ".">>, p), p + 3) ELSE Bad
       [] c = "-" ->
            IF p + 1 < n /\ IsL(At(s, p + 1)) THEN
               LET q == ScanLetters(s, p + 2) IN
               IF q < n /\ At(s, q) = "-" THEN Bad
               ELSE IF q - p = 2 THEN Go(Tok("ShortOpt", Slice(s, p, q), p), q) ELSE Go(Tok("OptSeq", Slice(s, p + 1, q), p), q)
            ELSE IF p + 1 < n /\ At(s, p + 1) = "-" THEN
               LET q == ScanLong(s, p + 2, p + 2) IN
               IF q > p + 2 THEN Go(Tok("LongOpt", Slice(s, p, q), p), q)
               ELSE IF q < n /\ At(s, q) = "-" THEN Bad           \* "---" is no token
               ELSE Go(Tok("DblDash", <<"-", "-">>, p), p + 2)
            ELSE Bad
       [] c = "=" ->
            IF p + 1 < n /\ At(s, p + 1) = "<" THEN
               LET q == ScanUntilGt(s, p + 2) IN
               IF q >= n \/ q = p + 2 THEN Bad ELSE Go(Tok("OptValue", Slice(s, p, q + 1), p), q + 1)
            ELSE Bad
       [] OTHER ->
            IF IsU(c) THEN LET q == ScanArg(s, p + 1) v == Slice(s, p, q) IN
                           Go(Tok(IF v = OPTIONS THEN "Options" ELSE "Arg", v, p), q)
            ELSE Bad

Ref == RefLex(str, 0, <<>>)

EmitRun == /\ Done /\ ~emitted /\ emitted' = TRUE
           /\ LET r == Ref IN
              PrintT("LEX " \o ToJson([s |-> str, err |-> err, toks |-> toks, refok |-> r.ok, q |-> r.q]))
           /\ UNCHANGED <<str, pos, toks, err>>
Next == Step \/ EmitRun
Spec == Init /\ [][Next]_vars /\ WF_vars(Next)

\* ------------------------------------------------------------------ properties (C08, lexical part)
Conforms ==
  Done => /\ (err = -1) <=> Ref.ok
          /\ err = -1 => toks = Ref.toks
          /\ err # -1 /\ ~Ref.ok => Ref.q <= err /\ err <= Len(str)
PosInside == err # -1 => 0 <= err /\ err <= Len(str)
\* every non-blank character of an accepted string belongs to exactly one token, reported faithfully
\* character positions a token claims: its text, plus the leading '-' that an OptSeq's val omits
Span(t) == IF t.typ = "OptSeq" THEN t.pos..(t.pos + Len(t.val)) ELSE t.pos..(t.pos + Len(t.val) - 1)
Tiling ==
  (Done /\ err = -1) =>
     /\ {p \in 0..(Len(str) - 1) : At(str, p) \notin {" ", "\t"}} \subseteq UNION {Span(toks[i]) : i \in 1..Len(toks)}
     /\ \A i \in 1..Len(toks) : \A j \in 1..Len(toks) : i < j => Span(toks[i]) \cap Span(toks[j]) = {} /\ toks[i].pos < toks[j].pos
     /\ \A i \in 1..Len(toks) : LET t == toks[i] start == IF t.typ = "OptSeq" THEN t.pos + 1 ELSE t.pos IN
           /\ start + Len(t.val) <= Len(str)
           /\ Slice(str, start, start + Len(t.val)) = t.val
Terminates == <>(Done /\ emitted)
=============================================================================
