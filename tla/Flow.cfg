SPECIFICATION Spec
CONSTANTS MaxDepth = 2  ExiterReturns = FALSE
INVARIANTS C05 AtMostOnce ExitIsLast
PROPERTY Terminates
CHECK_DEADLOCK FALSE
