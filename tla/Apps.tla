-------------------------------- MODULE Apps --------------------------------
(***************************************************************************)
(* C20: N applications, each built and run by its own goroutine, whose     *)
(* lifecycle steps  declare -> compile -> match -> fill -> run  interleave *)
(* arbitrarily.  The only state they share is the library's package-level  *)
(* variables and the process environment.  The table of those variables    *)
(* (globals.json) is extracted from /repo's sources by the harness         *)
(* (go/ast): name, the lifecycle steps that READ it and the steps that     *)
(* WRITE it (an assignment anywhere outside init and outside its           *)
(* declaration counts as written by every step).                           *)
(*                                                                         *)
(* A shared cell remembers who wrote it last; a step that reads a cell     *)
(* last written by another application is influenced by it.  The model     *)
(* also carries the per-call parse context: PooledContext = TRUE models a  *)
(* library that recycles contexts through a shared pool and releases one   *)
(* while it is still in use (the interference TLC must be able to find).   *)
(***************************************************************************)
EXTENDS Naturals, Sequences, FiniteSets, TLC, Json

CONSTANTS N, PooledContext

Globals == JsonDeserialize("globals.json")      \* sequence of [name, reads, writes] (steps as strings)
Steps == <<"declare", "compile", "match", "fill", "run">>
G == DOMAIN Globals
SeqToSet(s) == {s[i] : i \in DOMAIN s}
Reads(g, st) == st \in SeqToSet(Globals[g].reads)
Writes(g, st) == st \in SeqToSet(Globals[g].writes)

VARIABLES pc,         \* pc[p] \in 1..6: index of the next step (6 = done)
          cell,       \* cell[g]: 0 = as initialised, p = last written by application p
          ctxOwner,   \* PooledContext: which application's data the pooled context currently holds (0 = free)
          ctxOf,      \* PooledContext: the application that believes it owns the context
          influenced  \* applications whose outcome depended on another application
vars == <<pc, cell, ctxOwner, ctxOf, influenced>>
Procs == 1..N

Init == /\ pc = [p \in Procs |-> 1] /\ cell = [g \in G |-> 0]
        /\ ctxOwner = 0 /\ ctxOf = [p \in Procs |-> FALSE] /\ influenced = {}

Step(p) ==
  /\ pc[p] <= 5
  /\ LET st == Steps[pc[p]]
         foreign == \E g \in G : Reads(g, st) /\ cell[g] # 0 /\ cell[g] # p
         \* the pooled context: taken at "match", handed back at the end of "match" (too early), still read by "fill"
         ctxForeign == PooledContext /\ st = "fill" /\ ctxOwner # p
     IN /\ cell' = [g \in G |-> IF Writes(g, st) THEN p ELSE cell[g]]
        /\ influenced' = IF foreign \/ ctxForeign THEN influenced \cup {p} ELSE influenced
        /\ IF PooledContext /\ st = "match" THEN ctxOwner' = p /\ ctxOf' = [ctxOf EXCEPT ![p] = TRUE]
           ELSE UNCHANGED <<ctxOwner, ctxOf>>
  /\ pc' = [pc EXCEPT ![p] = @ + 1]

Next == \E p \in Procs : Step(p)
Spec == Init /\ [][Next]_vars /\ WF_vars(Next)

\* every interleaving gives every application its sequential outcome
Independent == influenced = {}
AllDone == <>(\A p \in Procs : pc[p] = 6)
=============================================================================
