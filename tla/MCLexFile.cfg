SPECIFICATION Spec
CONSTANTS Strings <- FileStrings  MaxLen = 0  FixDanglingDash = TRUE  FixDblDashFollow = TRUE
INVARIANTS Conforms PosInside Tiling
PROPERTY Terminates
CHECK_DEADLOCK FALSE
