SPECIFICATION Spec
CONSTANTS Strings <- ClassStrings  MaxLen = 4  FixDanglingDash = TRUE  FixDblDashFollow = TRUE
INVARIANTS Conforms PosInside Tiling
PROPERTY Terminates
CHECK_DEADLOCK FALSE
