----------------------------- MODULE SpecParser -----------------------------
(***************************************************************************)
(* C08 (syntactic part), C16, C03: internal/parser's recursive descent     *)
(* (seq / choice / atom, found / expect / back, the rejectOptions flag and *)
(* the error position rule of parse()) over sequences of token KINDS, next *)
(* to the spec grammar stated declaratively (span-based membership).       *)
(*                                                                         *)
(* Token kinds: declared and undeclared variants of every name kind        *)
(*   ARG UARG  SH USH  LG ULG  SEQ USEQ  OPTS  ( ) [ ] | ... VAL --        *)
(* (USEQ: a folded group with an undeclared letter).                       *)
(* Positions are token indices 1..Len(t); Len(t)+1 stands for "end of the  *)
(* string" (the code reports len(spec) there).                             *)
(***************************************************************************)
EXTENDS Naturals, Sequences, FiniteSets, TLC, Json

CONSTANTS Kinds, MaxLen,
          Seqs        \* the set of kind sequences to explore

NameKinds == {"ARG", "UARG", "SH", "USH", "LG", "ULG", "SEQ", "USEQ", "OPTS"}
OptionKinds == {"SH", "USH", "LG", "ULG", "SEQ", "USEQ", "OPTS"}
Undeclared == {"UARG", "USH", "ULG", "USEQ"}
\* lexer.TokenType of a kind: canAtom and found() only see the type
CanAtomKinds == NameKinds \cup {"(", "[", "--"}

(***************************************************************************)
(* The recursive descent, as in parser.go.  A parser state is [i, ro]:     *)
(* tkpos (1-based index of the next token) and rejectOptions.  A result is *)
(* [err, i, ro]: err = 0 for success, otherwise the token index parse()    *)
(* would report (the current token when the panic is raised).              *)
(***************************************************************************)
Ok(i, ro) == [err |-> 0, i |-> i, ro |-> ro]
Fail(p) == [err |-> p, i |-> 0, ro |-> FALSE]
Eof(t, i) == i > Len(t)
Is(t, i, k) == ~Eof(t, i) /\ t[i] = k

RECURSIVE PSeq(_, _, _, _), PSeqLoop(_, _, _), PChoice(_, _, _), PChoiceLoop(_, _, _), PAtom(_, _, _)

\* "if p.found(TTRep) { ... }" after an atom
Rep(t, i, ro) == IF Is(t, i, "...") THEN Ok(i + 1, ro) ELSE Ok(i, ro)

PAtom(t, i, ro) ==
  IF Eof(t, i) THEN Fail(Len(t) + 1)                                  \* "Unexpected end of input"
  ELSE LET k == t[i] IN
    CASE k = "ARG" -> Rep(t, i + 1, ro)
      [] k = "UARG" -> Fail(i)                                         \* found, back(), "Undeclared arg"
      [] k = "OPTS" -> IF ro THEN Fail(i) ELSE Rep(t, i + 1, ro)      \* "No options after --"
      [] k \in {"SH", "LG"} -> IF ro THEN Fail(i)
                               ELSE IF Is(t, i + 1, "VAL") THEN Rep(t, i + 2, ro) ELSE Rep(t, i + 1, ro)
      [] k \in {"USH", "ULG"} -> Fail(i)                               \* rejectOptions or undeclared: same position
      [] k = "SEQ" -> IF ro THEN Fail(i) ELSE Rep(t, i + 1, ro)
      [] k = "USEQ" -> Fail(i)
      [] k = "(" -> LET r == PSeq(t, i + 1, ro, TRUE) IN
                    IF r.err # 0 THEN r
                    ELSE IF Is(t, r.i, ")") THEN Rep(t, r.i + 1, r.ro)
                    ELSE Fail(IF Eof(t, r.i) THEN Len(t) + 1 ELSE r.i)  \* expect(TTClosePar)
      [] k = "[" -> LET r == PSeq(t, i + 1, ro, TRUE) IN
                    IF r.err # 0 THEN r
                    ELSE IF Is(t, r.i, "]") THEN Rep(t, r.i + 1, r.ro)
                    ELSE Fail(IF Eof(t, r.i) THEN Len(t) + 1 ELSE r.i)
      [] k = "--" -> Ok(i + 1, TRUE)                                   \* returns before the "..." test
      [] OTHER -> Fail(i)                                              \* "Unexpected input: was expecting ..."

PChoiceLoop(t, i, ro) ==
  IF Is(t, i, "|") THEN LET r == PAtom(t, i + 1, ro) IN
                        IF r.err # 0 THEN r ELSE PChoiceLoop(t, r.i, r.ro)
  ELSE Ok(i, ro)
PChoice(t, i, ro) == LET r == PAtom(t, i, ro) IN IF r.err # 0 THEN r ELSE PChoiceLoop(t, r.i, r.ro)

PSeqLoop(t, i, ro) ==
  IF ~Eof(t, i) /\ t[i] \in CanAtomKinds THEN
     LET r == PChoice(t, i, ro) IN IF r.err # 0 THEN r ELSE PSeqLoop(t, r.i, r.ro)
  ELSE Ok(i, ro)
PSeq(t, i, ro, required) ==
  IF required THEN LET r == PChoice(t, i, ro) IN IF r.err # 0 THEN r ELSE PSeqLoop(t, r.i, r.ro)
  ELSE PSeqLoop(t, i, ro)

\* parse(): seq(false), then "Unexpected input" unless at the end
Parse(t) == LET r == PSeq(t, 1, FALSE, FALSE) IN
            IF r.err # 0 THEN r.err
            ELSE IF ~Eof(t, r.i) THEN r.i ELSE 0

(***************************************************************************)
(* The grammar, declaratively (DESIGN C08):                                *)
(*   spec -> choice* ; choice -> atom ('|' atom)* ; atom -> '--' | base '...'? *)
(*   base -> ARG | OPTS | SH VAL? | LG VAL? | SEQ | '(' choice+ ')' | '[' choice+ ']' *)
(* plus: every name declared; no option token to the right of a '--'.      *)
(* D(nt, t, a, b): tokens a..b-1 (half-open) derive from nt.               *)
(***************************************************************************)
RECURSIVE DAtom(_, _, _), DBase(_, _, _), DChoice(_, _, _), DSeq1(_, _, _)
DBase(t, a, b) ==
  \/ b - a = 1 /\ t[a] \in {"ARG", "UARG", "OPTS", "SH", "USH", "LG", "ULG", "SEQ", "USEQ"}
  \/ b - a = 2 /\ t[a] \in {"SH", "USH", "LG", "ULG"} /\ t[a + 1] = "VAL"
  \/ b - a >= 3 /\ t[a] = "(" /\ t[b - 1] = ")" /\ DSeq1(t, a + 1, b - 1)
  \/ b - a >= 3 /\ t[a] = "[" /\ t[b - 1] = "]" /\ DSeq1(t, a + 1, b - 1)
DAtom(t, a, b) ==
  \/ b - a = 1 /\ t[a] = "--"
  \/ DBase(t, a, b)
  \/ b - a >= 2 /\ t[b - 1] = "..." /\ DBase(t, a, b - 1)
DChoice(t, a, b) ==
  \/ DAtom(t, a, b)
  \/ \E m \in (a + 1)..(b - 2) : t[m] = "|" /\ DAtom(t, a, m) /\ DChoice(t, m + 1, b)
DSeq1(t, a, b) ==       \* choice+
  \/ DChoice(t, a, b)
  \/ \E m \in (a + 1)..(b - 1) : DChoice(t, a, m) /\ DSeq1(t, m, b)

Shape(t) == Len(t) = 0 \/ DSeq1(t, 1, Len(t) + 1)
AllDeclared(t) == \A i \in 1..Len(t) : t[i] \notin Undeclared
NoOptionAfterEnd(t) == \A i, j \in 1..Len(t) : (i < j /\ t[i] = "--") => t[j] \notin OptionKinds
WellFormed(t) == Shape(t) /\ AllDeclared(t) /\ NoOptionAfterEnd(t)

(***************************************************************************)
(* Exploration: every kind sequence up to MaxLen                           *)
(***************************************************************************)
RECURSIVE SeqsUpTo(_)
SeqsUpTo(n) == IF n = 0 THEN {<<>>}
               ELSE LET S == SeqsUpTo(n - 1) IN S \cup {Append(x, c) : x \in {y \in S : Len(y) = n - 1}, c \in Kinds}

VARIABLES toks, phase, res
vars == <<toks, phase, res>>
Init == toks \in Seqs /\ phase = "case" /\ res = 0
Run == /\ phase = "case" /\ phase' = "done" /\ res' = Parse(toks)
       /\ PrintT("PARSE " \o ToJson([t |-> toks, err |-> Parse(toks), wf |-> WellFormed(toks)]))
       /\ UNCHANGED toks
Spec == Init /\ [][Run]_vars

\* the recursive descent accepts exactly the well-formed sequences, and reports a position inside
DescentMeetsGrammar == phase = "done" => ((res = 0) <=> WellFormed(toks))
PositionInside == phase = "done" => (res >= 0 /\ res <= Len(toks) + 1)
\* an undeclared name or an option behind -- is reported at that very token when everything before it is fine
=============================================================================
