SPECIFICATION Spec
INVARIANT SameAcceptance
VIEW View
CHECK_DEADLOCK FALSE
