------------------------------ MODULE RefGroups ------------------------------
(***************************************************************************)
(* Groups of related cases (C09 C10 C11 C12 C16).  A group is a spec and   *)
(* several members (environment set, command line) that a property says    *)
(* must have the same outcome (or a monotone one).  The generators live in *)
(* /verif/vlib; this module                                                *)
(*   1. checks that the members really stand in the relation the property  *)
(*      quantifies over (re-spelling, adjacent swap, marker insertion,     *)
(*      one more environment-backed option), using CmdLine!ItemsOf;        *)
(*   2. evaluates the reference semantics on every member and checks the   *)
(*      property's law on the reference itself;                            *)
(*   3. prints the predictions ("GROUP {json}") for the replay on the      *)
(*      real library.                                                      *)
(* groups.json: [progs, specs, groups]; groups[g] = [si, rel, members]     *)
(***************************************************************************)
EXTENDS RefSemantics, Json

SE == INSTANCE SequencesExt
SetToSeq(S) == SE!SetToSeq(S)

In == JsonDeserialize("groups.json")
SeqToSet(s) == {s[i] : i \in DOMAIN s}
ProgOfSpec(i) == LET p == In.progs[In.specs[i].prog + 1]
                 IN [short |-> p.short, long |-> p.long, flags |-> SeqToSet(p.flags)]

VARIABLES g, phase, out
vars == <<g, phase, out>>

Init == g \in DOMAIN In.groups /\ phase = "case" /\ out = <<>>

Grp == In.groups[g]
SpecOf(m) == In.specs[m.si + 1]
Ctx(m, D) == [P |-> ProgOfSpec(m.si + 1), env |-> SeqToSet(m.env), D |-> D]
Items(m) == ItemsOf(ProgOfSpec(m.si + 1), m.argv, FALSE)

\* ---- the relations ----
SameItems(ms) == /\ \A i \in DOMAIN ms : ~HasBad(Items(ms[i]))
                 /\ \A i \in DOMAIN ms : Items(ms[i]) = Items(ms[1]) /\ ms[i].env = ms[1].env /\ ms[i].si = ms[1].si

IsAdjSwap(a, b) ==
  /\ Len(a) = Len(b)
  /\ \E i \in 1..(Len(a) - 1) :
       /\ a[i].k = "occ" /\ a[i + 1].k = "occ" /\ a[i].o # a[i + 1].o
       /\ b = [a EXCEPT ![i] = a[i + 1], ![i + 1] = a[i]]
SwapRel(ms) == /\ Len(ms) = 2 /\ ms[1].env = ms[2].env /\ ms[1].si = ms[2].si
               /\ ~HasBad(Items(ms[1])) /\ ~HasBad(Items(ms[2]))
               /\ IsAdjSwap(Items(ms[1]), Items(ms[2]))

\* number of trailing "pos" items whose token does not start with a dash
RECURSIVE TrailingPos(_)
TrailingPos(items) ==
  IF Len(items) = 0 THEN 0
  ELSE LET l == items[Len(items)] IN
       IF l.k = "pos" /\ ~StartsDash(l.v) THEN 1 + TrailingPos(SubSeq(items, 1, Len(items) - 1)) ELSE 0
InsertAt(w, p, t) == SubSeq(w, 1, p) \o <<t>> \o SubSeq(w, p + 1, Len(w))   \* after the first p tokens
InsertRel(ms) ==
  LET base == ms[1] items == Items(base) n == Len(base.argv) m == TrailingPos(items) IN
  /\ ~HasBad(items) /\ ~(\E i \in 1..n : IsDD(base.argv[i]))
  /\ ~In.specs[base.si + 1].hasend /\ base.env = <<>>
  /\ \A i \in 2..Len(ms) : /\ ms[i].env = base.env /\ ms[i].si = base.si
                           /\ \E p \in (n - m)..n : ms[i].argv = InsertAt(base.argv, p, DD)

EnvRel(ms) == /\ Len(ms) = 2 /\ ms[1].argv = ms[2].argv /\ ms[1].si = ms[2].si
              /\ SeqToSet(ms[1].env) \subseteq SeqToSet(ms[2].env)
              /\ Cardinality(SeqToSet(ms[2].env) \ SeqToSet(ms[1].env)) = 1

RelOK == CASE Grp.rel = "respell" -> SameItems(Grp.members)
           [] Grp.rel = "swap" -> SwapRel(Grp.members)
           [] Grp.rel = "insert" -> InsertRel(Grp.members)
           [] Grp.rel = "envmono" -> EnvRel(Grp.members)
           [] OTHER -> TRUE

\* ---- predictions ----
Pred(m) ==
  LET sp == SpecOf(m)
      env == SeqToSet(m.env)
      accC == AccMaps(Ctx(m, Clean), sp.ast, m.argv)
      accS == IF env = {} \/ ~sp.hasgrp THEN accC ELSE AccMaps(Ctx(m, [Clean EXCEPT !.groupEnvSat = TRUE]), sp.ast, m.argv)
      accL == IF ~sp.hasend THEN accC ELSE AccMaps(Ctx(m, [Clean EXCEPT !.endLate = TRUE]), sp.ast, m.argv)
      accG == IF ~sp.hasgrp THEN accC ELSE AccMaps(Ctx(m, [Clean EXCEPT !.greedy = TRUE, !.groupEnvSat = TRUE]), sp.ast, m.argv)
  IN [acc |-> accC, uncl |-> (ShapeUnclaimed(ProgOfSpec(m.si + 1), m.argv) \/ accS # accC \/ accL # accC), accG |-> accG]

OptPart(m) == [v \in {x \in DOMAIN m : x[1] = "O"} |-> m[v]]

\* the property's law, stated on the reference
LawOK(ps) ==
  CASE Grp.rel \in {"respell", "swap", "tokswap", "insert", "same"} -> \A i \in DOMAIN ps : ps[i].acc = ps[1].acc
    [] Grp.rel = "envmono" ->
         /\ (ps[1].acc # {} => ps[2].acc # {})
         \* value clause (--free specs): every derivation of the smaller environment survives as it is
         /\ (~SpecOf(Grp.members[1]).hasend => ps[1].acc \subseteq ps[2].acc)
    [] OTHER -> TRUE

MapSeq(m) == SetToSeq({[kind |-> v[1], name |-> v[2], vals |-> m[v]] : v \in DOMAIN m})
MapsSeq(ms) == SetToSeq({MapSeq(m) : m \in ms})

Eval == /\ phase = "case" /\ phase' = "done"
        /\ LET ps == [i \in DOMAIN Grp.members |-> Pred(Grp.members[i])]
               rel == RelOK
               law == LawOK(ps) IN
           /\ out' = [rel |-> rel, law |-> law, anyuncl |-> \E i \in DOMAIN ps : ps[i].uncl]
           /\ PrintT("GROUP " \o ToJson([g |-> g - 1, rel |-> rel, law |-> law,
                  preds |-> [i \in DOMAIN ps |-> [acc |-> MapsSeq(ps[i].acc), uncl |-> ps[i].uncl,
                                                   same |-> (ps[i].accG = ps[i].acc),
                                                   accG |-> IF ps[i].accG = ps[i].acc THEN <<>> ELSE MapsSeq(ps[i].accG)]]]))
        /\ UNCHANGED g

Next == Eval
Spec == Init /\ [][Next]_vars

\* the generators only produce members that stand in the relation the property quantifies over
GeneratorsSound == phase = "done" => out.rel
\* the reference semantics itself satisfies the property's law on every claimed group
ReferenceSatisfiesLaw == phase = "done" => (out.law \/ out.anyuncl)
=============================================================================
