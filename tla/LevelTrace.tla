----------------------------- MODULE LevelTrace -----------------------------
(***************************************************************************)
(* Binding B for C04 / C14 on the repository's own test runs: every call   *)
(* of Cmd.parse recorded by the harvest hook (event "level": the remaining *)
(* arguments, the aliases of the direct sub commands, the split point      *)
(* nargsLen and helpIndex the code computed) must be what the routing      *)
(* rules of CmdTree.tla say: split at the first token naming a direct sub  *)
(* command (whatever precedes it, -- included), help token searched up to  *)
(* the first --.  leveltrace.json: sequence of [argv (strings), subs       *)
(* (sequence of alias sequences), nargs, help (0-based, -1 = none)]        *)
(***************************************************************************)
EXTENDS Integers, Sequences, FiniteSets, TLC, Json

Events == JsonDeserialize("leveltrace.json")
SeqToSet(s) == {s[i] : i \in DOMAIN s}
AllNames(subs) == UNION {SeqToSet(subs[i]) : i \in DOMAIN subs}

RECURSIVE NArgsFrom(_, _, _)
NArgsFrom(names, w, k) == IF k > Len(w) \/ w[k] \in names THEN k - 1 ELSE NArgsFrom(names, w, k + 1)
RECURSIVE HelpIdx(_, _)
HelpIdx(w, i) == IF i > Len(w) \/ w[i] = "--" THEN 0 ELSE IF w[i] \in {"-h", "--help"} THEN i ELSE HelpIdx(w, i + 1)

VARIABLES ei, verdict
Init == ei \in DOMAIN Events /\ verdict = "todo"
Agrees(e) == /\ e.nargs = NArgsFrom(AllNames(e.subs), e.argv, 1)
             /\ e.help = HelpIdx(e.argv, 1) - 1
Check == /\ verdict = "todo"
         /\ verdict' = IF Agrees(Events[ei]) THEN "ok" ELSE "mismatch"
         /\ IF Agrees(Events[ei]) THEN TRUE ELSE PrintT("LT " \o ToJson([ei |-> ei - 1]))
         /\ UNCHANGED ei
Spec == Init /\ [][Check]_<<ei, verdict>>
=============================================================================
