#!/bin/sh
# Build the framework from files on disk only (offline).
set -e
cd "$(dirname "$0")"
exec ./check --setup
