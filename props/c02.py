"""C02 - bound values are exactly a valid derivation of the command line."""
import collections, random
from vlib import core, specgen as g, refenum, groups as G, matchtrace
from props import refcommon as rc, groupcommon as gc

PROP = "C02"


def is_violation(cls):
    # the Action ran although the command line has no derivation at all: whatever was bound is not a derivation either
    return cls.startswith("violation:bindings") or cls.startswith("violation:verdict (library accepted")


def run(tier, wd):
    rep = core.Report(PROP, tier, "model_checking")
    binpath = core.build_harness()
    seed = core.seed()
    rnd = random.Random(seed)
    p = g.STD_PROG
    q = tier == "quick"
    # (1) bounded exhaustive, alphabet chosen so that many lines are accepted with several bound variables
    specs = g.family(p, 10 if q else 60, seed)
    alphabet = ["x", " y ", "--", "-ab", "-ov", "-o", "--out=w ", "-a", "--out", "--aa", "1"] if q else ["x", "y", "--", "-ab", "-ov", "-o", "--out=w", "-a", "-eu", "--out"]
    triples = rc.enumerate_and_run(rep, wd, binpath, specs, alphabet, [[]] if q else [[], ["-e"]], 3 if q else 4, "enum")
    if not q:
        # the quick tier's alphabet (blank-padded tokens, a long flag next to a token ParseBool accepts) up to length 3 as well
        triples = triples + rc.enumerate_and_run(rep, wd, binpath, specs, ["x", " y ", "--", "-ab", "-ov", "-o", "--out=w ", "-a", "--out", "--aa", "1"], [[]], 3, "enum-quick-alphabet")
    cnt = collections.Counter()
    nontrivial = set()
    ambiguous = 0
    for c, r, cls in triples:
        cnt[cls if not cls.startswith("violation") else cls.split(" ")[0]] += 1
        if is_violation(cls):
            rep.violation(rc.describe(specs, c) + " -> " + cls, rc.replay_obj(specs, c, r, cls))
        if c["acc"] and sum(len(v) for _, v in next(iter(c["acc"]))) >= 2:
            nontrivial.add((specs[c["si"]]["str"], tuple(c["env"]), tuple(c["argv"])))
        if len(c["acc"]) > 1:
            ambiguous += 1
    # (2) longer sentences of more specs, every occurrence in a random spelling/folding
    specs2 = g.family(p, 40 if q else 400, seed + 3)
    groups, seen = [], set()
    per_spec = 40 if q else 200
    for si, s in enumerate(specs2):
        tries = n = 0
        while n < per_spec and tries < per_spec * 5:
            tries += 1
            # (values and positionals with surrounding blanks: every token must arrive unchanged)
            items = g.sample_items(p, s["ast"], rnd, vals=("v", "w2", "u", " v ", "w\t"), poss=("x", "y", "z1", " p", "q "))
            if rnd.random() < 0.5:
                items = g.shuffle_runs(items, rnd)
            if len(items) > 9 or len(items) < 2:
                continue
            line = G.random_line(p, items, rnd) if g.marker_ok(items) else g.render_items(items)
            key = (si, tuple(line))
            if key in seen:
                continue
            seen.add(key)
            n += 1
            groups.append({"rel": "single", "members": [{"si": si, "env": [], "argv": line}]})
            if rnd.random() < 0.12:
                # the same line on an application object that already ran under ANOTHER spec string (Spec assigned between two runs)
                other = specs2[rnd.randrange(len(specs2))]["str"]
                groups.append({"rel": "single", "members": [{"si": si, "env": [], "argv": line, "prerun": [["x"], list(line)], "prespec": other}]})
    t2 = gc.run_groups(rep, wd, binpath, [p], specs2, groups, "sentences", law="oracle")
    for grp, pr, rs, v, classes in t2:
        cls = classes[0]
        cnt["s:" + (cls if not cls.startswith("violation") else cls.split(" ")[0])] += 1
        if is_violation(cls):
            rep.violation("spec=%r argv=%s -> %s" % (specs2[grp["members"][0]["si"]]["str"], grp["members"][0]["argv"], cls),
                          gc.replay_obj([p], specs2, grp, rs, cls, pr))
        acc = pr["preds"][0]["acc"]
        if acc and sum(len(v) for _, v in next(iter(acc))) >= 2:
            nontrivial.add((specs2[grp["members"][0]["si"]]["str"], (), tuple(grp["members"][0]["argv"])))
            if len(rep.cov["samples"]) < 6 and len(grp["members"][0]["argv"]) >= 4:
                rep.cov["samples"].append({"spec": specs2[grp["members"][0]["si"]]["str"], "argv": grp["members"][0]["argv"],
                                           "reference_derivations": len(acc), "library": gc.fmt(G.outcome(rs[0]))})
        if len(acc) > 1:
            ambiguous += 1
    # (3) the same sentences with the matchers traced: every call of Matcher.Match the search made is validated by TLC against
    #     Matchers.tla (token surgery, remaining arguments, values recorded by that very call)
    ncalls, bad = matchtrace.validate(rep, wd, binpath, [p], specs2, [grp["members"][0] for grp in groups])
    for text, obj in bad[:10]:
        rep.violation(text, obj)
    rep.cov["matcher_calls_validated"] = ncalls
    # (4) "the values written", for the built-in types: the variable holds the written numerals/words as the type reads them in base 10
    # (zero-padded and signed numerals included); Values.tla says which tokens end up in the variable
    from vlib import values as V
    from props import valcommon as vc
    vcases, vabs = [], []
    for typ in V.BUILTIN:
        for role in ("opt", "arg"):
            for clipat in [("valid",), ("valid", "valid"), ("valid", "valid", "valid")]:
                for rep_ in range(2 if tier == "quick" else 12):
                    c_, a_ = V.concrete(typ, role, rep_ % 2 == 1, V.DEFAULTS[typ][0], (), clipat, rnd)
                    vcases.append(c_)
                    vabs.append(a_)
    for case, a_, clean, dev, r in vc.run_cases(rep, wd, binpath, vcases, vabs, "typed"):
        if r.get("skipped"):
            continue
        want = V.expected_value(case, clean, r) if not (r.get("hang") or r.get("crash")) else None
        if r.get("hang") or r.get("crash") or not r["ran"] or r["value"] != want:
            rep.violation("%s: variable is %s (ran=%s err=%s), written: %s" % (vc.describe(case), r.get("value"), r.get("ran"), r.get("err"), want),
                          {"engine": "values", "case": case, "expected": want})
    rep.cov["typed_cases"] = len(vcases) + vc.pair_part(rep, wd, binpath, rnd, "typed-pair", 1 if tier == "quick" else 4)
    rep.cov["evaluations"] += ncalls
    rep.cov["classes"] = dict(cnt)
    rep.cov["ambiguous_cases"] = ambiguous
    rep.cov["distinct_nontrivial"] = len(nontrivial)
    rep.cov["rule"] = ("(1) every spec of the family x every argument vector over the alphabet up to maxlen; (2) random sentences of further specs with "
                       "every occurrence in a random documented spelling/folding. For every case the library's per-variable sequences of Set calls "
                       "must be one of the derivations RefSemantics.tla admits; non-trivial = accepted with at least two bound tokens; "
                       "ambiguous = the reference admits several derivations; (3) every Matcher.Match call of those runs validated against Matchers.tla; "
                       "(4) 7 built-in types x option/argument x 1..3 written values: the variable holds them as read in base 10 (Values.tla)")
    rep.assumptions += ["standard program (see C01), all variables declared with a recording value type, so repeated values and their order are observed",
                        "a rejection of a line the reference accepts is C01's business and not reported here"]
    return rep.finish()


def replay(path, wd):
    import json
    with open(path) as f:
        o = json.load(f)["replay"]
    if o.get("engine") == "matchtrace":
        rep = core.Report(PROP, "quick", "model_checking")
        import os
        c = o["case"]
        from vlib import specparse
        spec = {"ast": specparse.parse(c["spec"], g.STD_PROG), "str": c["spec"]}
        n, bad = matchtrace.validate(rep, wd, core.build_harness(), [g.STD_PROG], [spec], [{"si": 0, "env": c["env"], "argv": c["argv"]}])
        for t, _ in bad:
            print("replay:", t)
        return 1 if bad else 0
    if o.get("engine") == "values":
        from props import valcommon as vc
        return vc.replay_values(path, wd, lambda o, r: vc.pair_replay_bad(o, r) if "expected2" in o else not (r.get("ran") and r.get("value") == o["expected"]))
    if o.get("engine") == "refgroups":
        return gc.rerun_replay(path, wd, law="oracle")
    return rc.rerun_replay(path, wd, is_violation)
