"""Shared by C06 C13 C15 C19 (engine Values)."""
import json, os, random
from vlib import core, values as V


def run_cases(rep, wd, binpath, cases, abstracts, label):
    sub = os.path.join(wd, label)
    os.makedirs(sub, exist_ok=True)
    res, clean, dev = V.predict(sub, abstracts)
    rep.add_tlc(res)
    results = core.run_harness(binpath, "values", cases, sub)
    rep.cov["evaluations"] += len(cases)
    rep.cov["traces_validated_against_impl"] += len(cases)
    return list(zip(cases, abstracts, clean, dev, results))


def check_abstraction(case, abstract, r):
    """the ok flags given to TLC must be strconv's verdicts (built-in numeric/bool types)"""
    if case["type"] in ("custom", "string", "strings"):
        return None
    toks = list(abstract["cli"]) + [e for ev in abstract["envs"] for e in ev["elems"]]
    for t in toks:
        c = r["canon"].get(t["id"])
        if c is None or c["ok"] != t["ok"]:
            return "token %r: case says ok=%s, strconv says %s" % (t["id"], t["ok"], c)
    return None


def describe(case):
    return "%s %s%s%s%s default=%s env=%s argv=%s" % (case["type"], case["role"], " (Ptr)" if case["ptr"] else "", " (convenience method)" if case.get("conv") else "", " (shared with a sibling command declared %s)" % ("after it" if case["siblings"] == 1 else "before it") if case.get("siblings") else "", json.dumps(case["default"]),
                                                    [(e["state"], e["value"]) for e in case["envs"]], case["argv"] if "argv_hex" not in case else "hex%s" % case["argv_hex"])


def replay_values(path, wd, judge):
    with open(path) as f:
        o = json.load(f)["replay"]
    binpath = core.build_harness()
    r = core.run_harness(binpath, "values", [o["case"]], wd, shards=1)[0]
    print("replay: %s -> %s" % (describe(o["case"]), json.dumps(r)))
    bad = judge(o, r)
    print("replay: %s" % ("VIOLATED" if bad else "holds"))
    return 1 if bad else 0


def pair_part(rep, wd, binpath, rnd, label, reps=1):
    """two multi-valued variables of the same type declared with the SAME default slice (as it is, or empty with spare capacity), both
    given values in one invocation: each holds exactly its own tokens (Values.tla predicts either variable on its own).
    Returns the number of cases; reports violations on rep."""
    cases, abs1, abs2, toks2 = [], [], [], []
    for typ in ("strings", "ints", "floats"):
        tk = V.Tok(typ)
        for role in ("opt", "arg"):
            for pair in ("shared", "sharedcap"):
                for n1 in (0, 1, 2, 3):
                    for n2 in (0, 1, 2):
                        for _ in range(reps):
                            default = V.DEFAULTS[typ][0] if pair == "shared" else []
                            c, a = V.concrete(typ, role, False, default, (), ("valid",) * n1, rnd)
                            t2 = [tk.valid() for _ in range(n2)]
                            t2 = [t for t in t2 if t and not t.startswith("-") and t.strip() == t and "=" not in t]
                            c["pair"] = pair
                            extra = []
                            for t in t2:
                                extra += rnd.choice([["-p", t], ["--pair=" + t], ["-p=" + t]])
                            if role == "opt":
                                c["spec"] = "[-o | -p]..."
                                k = rnd.randint(0, len(c["argv"]))
                                c["argv"] = c["argv"][:k] + extra + c["argv"][k:] if all(len(x) for x in c["argv"]) and not any(x in ("-o", "--opt") for x in c["argv"]) else extra + c["argv"]
                            else:
                                c["spec"] = "[-p]... " + c["spec"]
                                c["argv"] = extra + c["argv"]
                            c["cli_first"] = list(c["cli"])
                            c["cli"] = list(c["cli"]) + t2      # the harness reports strconv's reading of every token listed here
                            cases.append(c)
                            abs1.append(a)
                            abs2.append({"multi": True, "envs": [], "cli": [{"id": t, "ok": True} for t in t2]})
                            toks2.append(t2)
    # two ARGUMENTS of the same type that take turns: `(A B)...` - A holds the 1st, 3rd, 5th token, B the others
    for typ in ("strings", "ints", "floats"):
        tk = V.Tok(typ)
        for rounds in (1, 2, 3, 4):
            for _ in range(max(reps, 4)):      # (the order in which a merged context is walked varies from run to run)
                toks = []
                while len(toks) < 2 * rounds:
                    t = tk.valid()
                    if t and not t.startswith("-") and t.strip() == t:
                        toks.append(t)
                c, a = V.concrete(typ, "arg", False, V.DEFAULTS[typ][0], (), (), rnd)
                c.update(pair="args", spec="(A B)...", argv=list(toks), cli=list(toks), cli_first=toks[0::2])
                cases.append(c)
                abs1.append({"multi": True, "envs": [], "cli": [{"id": t, "ok": True} for t in toks[0::2]]})
                abs2.append({"multi": True, "envs": [], "cli": [{"id": t, "ok": True} for t in toks[1::2]]})
                toks2.append(toks[1::2])
    # the same application object run twice: the values of the second command line replace what the first one stored
    for typ in V.BUILTIN:
        tk = V.Tok(typ)
        for role in ("opt", "arg"):
            for di, default in enumerate(V.DEFAULTS[typ]):
                for n1 in (1, 2):      # (a variable the second line does not mention keeps what the first run stored: not claimed)
                    c, a = V.concrete(typ, role, di == 1, default, (), ("valid",) * n1, rnd)
                    pre = []
                    for _ in range(2):
                        t = tk.valid()
                        if t and not t.startswith("-") and t.strip() == t and "=" not in t:
                            pre += ["-o=" + t] if role == "opt" else [t]
                    if c["spec"].startswith("--") or (c["argv"] and c["argv"][0] == "--"):
                        continue
                    c["prerun"] = [pre]
                    c["cli_first"] = list(c["cli"])
                    cases.append(c)
                    abs1.append(a)
                    abs2.append({"multi": True, "envs": [], "cli": []})
                    toks2.append([])
    sub = os.path.join(wd, label)
    os.makedirs(sub, exist_ok=True)
    res1, clean1, _ = V.predict(sub, abs1)
    rep.add_tlc(res1)
    res2, clean2, _ = V.predict(sub, abs2)
    rep.add_tlc(res2)
    results = core.run_harness(binpath, "values", [{k: v for k, v in c.items() if k != "cli_first"} for c in cases], sub)
    for c, p1, p2, r in zip(cases, clean1, clean2, results):
        rep.cov["evaluations"] += 1
        if r.get("skipped"):
            continue
        if r.get("hang") or r.get("crash"):
            rep.violation("%s: %s" % (describe(c), r), {"engine": "values", "case": c, "expected": None})
            continue
        w1, w2 = V.expected_value(c, p1, r), V.expected_value(c, p2, r)
        if "pair" not in c:
            w2 = []      # (a re-run case has no second variable)
        if not r["ran"] or r["value"] != w1 or r.get("value2", []) != w2:
            rep.violation(("%s after an earlier run %s on the same application: variable is %s (ran=%s err=%s), specification says %s" % (
                describe(c), c["prerun"], r.get("value"), r.get("ran"), r.get("err"), w1)) if "pair" not in c else "%s, a second variable of the same type (%s: an option -p sharing the default slice / an argument B taking turns): variables are %s and %s (ran=%s err=%s), specification says %s and %s" % (
                describe(c), c["pair"], r.get("value"), r.get("value2"), r.get("ran"), r.get("err"), w1, w2),
                {"engine": "values", "case": {k: v for k, v in c.items() if k != "cli_first"}, "expected": w1, "expected2": w2})
    rep.cov["shared_default_cases"] = len(cases)
    return len(cases)


def pair_replay_bad(o, r):
    return not (r.get("ran") and r.get("value") == o["expected"] and r.get("value2", []) == o.get("expected2", []))
