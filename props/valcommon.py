"""Shared by C06 C13 C15 C19 (engine Values)."""
import json, os, random
from vlib import core, values as V


def run_cases(rep, wd, binpath, cases, abstracts, label):
    sub = os.path.join(wd, label)
    os.makedirs(sub, exist_ok=True)
    res, clean, dev = V.predict(sub, abstracts)
    rep.add_tlc(res)
    results = core.run_harness(binpath, "values", cases, sub)
    rep.cov["evaluations"] += len(cases)
    rep.cov["traces_validated_against_impl"] += len(cases)
    return list(zip(cases, abstracts, clean, dev, results))


def check_abstraction(case, abstract, r):
    """the ok flags given to TLC must be strconv's verdicts (built-in numeric/bool types)"""
    if case["type"] in ("custom", "string", "strings"):
        return None
    toks = list(abstract["cli"]) + [e for ev in abstract["envs"] for e in ev["elems"]]
    for t in toks:
        c = r["canon"].get(t["id"])
        if c is None or c["ok"] != t["ok"]:
            return "token %r: case says ok=%s, strconv says %s" % (t["id"], t["ok"], c)
    return None


def describe(case):
    return "%s %s%s%s%s default=%s env=%s argv=%s" % (case["type"], case["role"], " (Ptr)" if case["ptr"] else "", " (convenience method)" if case.get("conv") else "", " (shared with a sibling command declared %s)" % ("after it" if case["siblings"] == 1 else "before it") if case.get("siblings") else "", json.dumps(case["default"]),
                                                    [(e["state"], e["value"]) for e in case["envs"]], case["argv"] if "argv_hex" not in case else "hex%s" % case["argv_hex"])


def replay_values(path, wd, judge):
    with open(path) as f:
        o = json.load(f)["replay"]
    binpath = core.build_harness()
    r = core.run_harness(binpath, "values", [o["case"]], wd, shards=1)[0]
    print("replay: %s -> %s" % (describe(o["case"]), json.dumps(r)))
    bad = judge(o, r)
    print("replay: %s" % ("VIOLATED" if bad else "holds"))
    return 1 if bad else 0
