"""C07 - rejected invocations run nothing and follow the configured error policy."""
import random
from vlib import core, tree as T
from props import treecommon as tc

PROP = "C07"
CLAUSES = ("policy", "routing")


def run(tier, wd):
    rep = core.Report(PROP, tier, "model_checking")
    binpath = core.build_harness()
    rnd = random.Random(core.seed())
    q = tier == "quick"
    alphabet = ["c1", "c2", "d1", "a1", "b1", "e2", "get", "one", "deep", "x", "-f", "-n=7", "-n=zz", "-g", "zz", "-v"] if q else \
               ["c1", "k1", "c2", "d1", "a1", "b1", "bb", "e1", "e2", "x", "-f", "-n=7", "-n=zz", "-n", "-g", "--", "zz", "--force=maybe", "-v"]
    trs, rows = tc.run_tree(rep, wd, binpath, alphabet, 3 if q else 4, ["continue", "exit", "panic"], "c07")
    # commands that set their own error policy in their initialiser: the policy of the command that rejects decides
    tc.add_tree(rep, wd, binpath, alphabet, ["continue", "exit", "panic"], "c07-policy", T.policy_tree(), trs, rows)
    # a multi-valued Int option: every written value must be convertible (numerals padded with blanks are not)
    tc.add_tree(rep, wd, binpath, alphabet, ["continue", "exit", "panic"], "c07-ints", T.ints_tree(), trs, rows)
    # a string-valued option next to a lone dash, an Int argument, folded groups in front of a sub command name
    tc.add_tree(rep, wd, binpath, alphabet, ["continue", "exit", "panic"], "c07-cluster", T.cluster_tree(), trs, rows)
    tc.add_tree(rep, wd, binpath, alphabet, ["continue", "exit", "panic"], "c07-alias", T.alias_tree(), trs, rows)
    kinds, by_level = {}, {}
    nontriv = 0
    for c, r in rows:
        if r.get("skipped"):
            continue
        k = c["kind"] + "/" + c["policy"]
        kinds[k] = kinds.get(k, 0) + 1
        if c["kind"] == "noaction":
            continue
        js = [j for j in T.judge(c, r) if j[0] in CLAUSES]
        if js and c.get("greedy"):
            rep.known("Dev_GreedyGroup", tc.describe(trs, c))
            continue
        if js:
            rep.violation(tc.describe(trs, c) + ": " + "; ".join(t for _, t in js), tc.replay_obj(trs, c))
        if c["kind"] == "reject":
            nontriv += 1
            by_level[c["path"]] = by_level.get(c["path"], 0) + 1
            if len(rep.cov["samples"]) < 6 and c["path"] != "app" and rnd.random() < 0.005:
                rep.cov["samples"].append({"argv": c["argv"], "policy": c["policy"], "specification": "reject at " + c["path"],
                                           "library": {"err": r.get("err"), "exits": r["exits"], "panic": r.get("panic"), "usage": r["usages"][:1], "errors": r["errors"][:1]}})
    # the outcome is a function of the declarations and the argument vector: an earlier Run on the same application object
    # (possible for commands that declare nothing) must not change it - in particular not the error policy of a sub command
    t5 = [i for i, t in enumerate(trs) if t["nodes"][0].get("bare")][0]
    again = [c for c, r in rows if c["ti"] == t5 and c["kind"] in ("reject", "run") and not r.get("skipped")]
    pres = [[["one"]], [["one", "deep"], ["two"]], [["one", "bogus"]]]
    extra = [(c, pre) for c in again for pre in pres]
    res2 = core.run_harness(binpath, "tree", [T.harness_case(trs[t5], c["policy"], c["argv"], pre) for c, pre in extra], wd)
    for (c, pre), r in zip(extra, res2):
        rep.cov["evaluations"] += 1
        if r.get("skipped"):
            continue
        js = [j for j in T.judge(c, r) if j[0] in CLAUSES]
        if js:
            o = tc.replay_obj(trs, c)
            o["harness_case"] = T.harness_case(trs[t5], c["policy"], c["argv"], pre)
            rep.violation("after earlier runs %s on the same application: " % pre + tc.describe(trs, c) + ": " + "; ".join(t for _, t in js), o)
    rep.cov["rerun_cases"] = len(extra)
    rep.cov["outcome_kinds"] = kinds
    rep.cov["rejections_by_command"] = by_level
    rep.cov["distinct_nontrivial"] = nontriv
    rep.cov["exhaustive"] = True
    rep.cov["rule"] = ("5 command trees x 3 error policies x every argument vector over %d tokens (sub command names, positionals, declared and undeclared options, "
                       "an Int option with a convertible and an inconvertible value, unknown words) up to length %d: CmdTree.tla says which level rejects (spec mismatch, "
                       "unknown option/word, inconvertible value) or that the invocation is accepted; the library must run nothing, write the error and the usage of "
                       "that command and follow the policy (return error / exit 2 once / panic with the error); accepted invocations return nil. "
                       "non-trivial = rejections" % (len(alphabet), 3 if q else 4))
    rep.assumptions += ["the policy is set on the application before sub commands are declared (they copy it at declaration)",
                        "the exit stub records the status and unwinds with a sentinel"]
    return rep.finish()


def replay(path, wd):
    return tc.replay(path, wd, CLAUSES)
