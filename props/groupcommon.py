"""Shared by the checks decided through the RefGroups engine (C09 C10 C11 C12 C16)."""
import collections, json, os
from vlib import core, specgen as g, refenum, groups as G


def run_groups(rep, wd, binpath, progs, specs, groups, label, law="equal", only_opts=False):
    """returns list of (group, preds, results, verdict) ; verdict in ok | unclaimed | known:<id> | violation:<why> | oracle-conflict"""
    sub = os.path.join(wd, label)
    os.makedirs(sub, exist_ok=True)
    res, preds = G.predict(sub, progs, specs, groups)
    rep.add_tlc(res)
    results = G.execute(binpath, sub, progs, specs, groups)
    out = []
    for grp, pr, rs in zip(groups, preds, results):
        n = len(grp["members"])
        rep.cov["evaluations"] += n
        rep.cov["traces_validated_against_impl"] += n
        classes = [refenum.classify(pr["preds"][i], rs[i]) for i in range(n)]
        anyuncl = any(p["uncl"] for p in pr["preds"])
        outs = [G.outcome(r, only_opts) for r in rs]
        if law == "equal":
            holds = all(o == outs[0] for o in outs)
            why = "members differ: " + "; ".join("%s -> %s" % (grp["members"][i]["argv"], fmt(outs[i])) for i in range(n) if i == 0 or outs[i] != outs[0]) if not holds else ""
        elif law == "monotone":
            a, b = outs[0], outs[1]
            holds = True
            why = ""
            if a[0] is True:
                if b[0] is not True:
                    holds, why = False, "accepted with env %s, not with env %s: %s" % (grp["members"][0]["env"], grp["members"][1]["env"], fmt(b))
                elif not specs[grp["members"][0]["si"]].get("hasend") and a[1] != b[1]:
                    holds, why = False, "option values changed: %s vs %s" % (fmt(a), fmt(b))
            elif a[0] in ("dead", "panic") or b[0] in ("dead", "panic"):
                holds, why = False, "crash/panic: %s / %s" % (fmt(a), fmt(b))
        elif law == "oracle":
            bad = [c for c in classes if c.startswith("violation")]
            holds = not bad
            why = "; ".join("%s -> %s" % (grp["members"][i]["argv"], classes[i]) for i in range(n) if classes[i].startswith("violation"))
        else:
            raise ValueError(law)
        if any(o[0] == "skipped" for o in outs):
            v = "skipped"
        elif holds:
            v = "ok"
        elif anyuncl:
            v = "unclaimed"
        elif all(c == "ok" or c.startswith("known:") for c in classes) and any(c.startswith("known:") for c in classes):
            v = [c for c in classes if c.startswith("known:")][0]
        else:
            v = "violation:" + why
        out.append((grp, pr, rs, v, classes))
    return out


def fmt(o):
    if o[0] in ("dead", "panic", "skipped"):
        return "%s(%s)" % o
    return "%s %s" % ("ran" if o[0] else "rejected", sorted((k, list(v)) for k, v in o[1]))


def replay_obj(progs, specs, grp, rs, why, pr=None):
    return {"engine": "refgroups", "progs": progs, "rel": grp["rel"],
            "reference_accepts": [sorted([sorted([k, list(v)] for k, v in m) for m in x["acc"]]) for x in pr["preds"]] if pr else None,
            "unclaimed": [x["uncl"] for x in pr["preds"]] if pr else None,
            "reference_accepts_greedy": [sorted([sorted([k, list(v)] for k, v in m) for m in x["accG"]]) for x in pr["preds"]] if pr else None,
            "members": [{"spec": specs[m["si"]]["str"], "prog": specs[m["si"]].get("prog", 0), "env": list(m["env"]), "argv": list(m["argv"]),
                         "prerun": [list(x) for x in m.get("prerun", [])], "rawbyte": bool(m.get("rawbyte")), "posthelp": bool(m.get("posthelp")), "prespec": m.get("prespec")} for m in grp["members"]],
            "observed": [{k: r.get(k) for k in ("ran", "err", "panic", "log", "hang", "crash") if k in r} for r in rs], "why": why}


def rerun_replay(path, wd, law="equal", only_opts=False):
    with open(path) as f:
        o = json.load(f)["replay"]
    binpath = core.build_harness()
    pf = os.path.join(wd, "progs.json")
    with open(pf, "w") as f:
        json.dump(o["progs"], f)
    flat = [G.exec_case(i, {"prog": m["prog"], "str": m["spec"]}, m) for i, m in enumerate(o["members"])]
    rs = [G.unhex(r) for r in core.run_harness(binpath, "exec", flat, wd, env={"HARNESS_PROGS": pf}, shards=1)]
    outs = [G.outcome(r, only_opts) for r in rs]
    for m, x in zip(o["members"], outs):
        print("replay: spec=%r env=%s argv=%s -> %s" % (m["spec"], m["env"], m["argv"], fmt(x)))
    oracle_bad = False
    if o.get("reference_accepts"):
        for i, r in enumerate(rs):
            acc = set(frozenset((k, tuple(v)) for k, v in m) for m in o["reference_accepts"][i])
            accg = acc
            if o.get("reference_accepts_greedy"):
                accg = set(frozenset((k, tuple(v)) for k, v in m) for m in o["reference_accepts_greedy"][i])
            cls = refenum.classify({"acc": acc, "accG": accg, "uncl": False}, r)
            print("replay: member %d against the recorded reference prediction: %s" % (i, cls))
            if cls.startswith("violation") and not (o.get("unclaimed") or [False] * len(rs))[i]:
                oracle_bad = True
    if o.get("usage_expect") is not None and rs[0].get("usage") is not None and rs[0].get("err"):
        if rs[0]["usage"].rstrip() != o["usage_expect"]:
            print("replay: usage line %r, expected %r" % (rs[0]["usage"], o["usage_expect"]))
            oracle_bad = True
    if o.get("usage_expect") is not None and o["members"][0].get("posthelp") and not (rs[0].get("specerr") or rs[0].get("panic")):
        if (rs[0].get("postusage") or "").rstrip() != o["usage_expect"]:
            print("replay: usage line of PrintHelp after Run %r, expected %r" % (rs[0].get("postusage"), o["usage_expect"]))
            oracle_bad = True
    if law == "oracle":
        bad = oracle_bad
    elif law == "equal":
        bad = any(x != outs[0] for x in outs)
    else:
        a, b = outs[0], outs[1]
        bad = (a[0] is True and (b[0] is not True or a[1] != b[1])) or a[0] in ("dead", "panic") or b[0] in ("dead", "panic")
    if law != "oracle" and o.get("check_oracle"):
        bad = bad or oracle_bad
    print("replay: %s" % ("VIOLATED" if bad else "holds"))
    return 1 if bad else 0


def finish_groups(rep, progs, specs, triples, nontrivial_rule, check_oracle=False, usage_expect=None):
    cnt = collections.Counter()
    nontriv = set()
    for grp, pr, rs, v, classes in triples:
        cnt[v.split(":")[0] if v.startswith("violation") else v] += 1
        key = (grp["rel"], tuple((m["si"], tuple(m["env"]), tuple(m["argv"])) for m in grp["members"]))
        if v.startswith("known:"):
            rep.known(v[6:], "%s %s" % (specs[grp["members"][0]["si"]]["str"], [m["argv"] for m in grp["members"]][:3]))
        elif v.startswith("violation"):
            ro = replay_obj(progs, specs, grp, rs, v, pr)
            ro["check_oracle"] = check_oracle
            if usage_expect is not None:
                ro["usage_expect"] = ("Usage: app " + usage_expect.get(grp["members"][0]["si"], "")).rstrip()
            rep.violation("%s spec=%r: %s" % (grp["rel"], specs[grp["members"][0]["si"]]["str"], v[10:]), ro)
        if len(grp["members"]) >= 2 and any(p["acc"] for p in pr["preds"]):
            nontriv.add(key)
            if len(rep.cov["samples"]) < 5 and len(grp["members"][0]["argv"]) >= 2:
                rep.cov["samples"].append({"rel": grp["rel"], "spec": specs[grp["members"][0]["si"]]["str"],
                                           "members": [{"env": m["env"], "argv": m["argv"]} for m in grp["members"][:6]],
                                           "library": [fmt(G.outcome(r)) for r in rs[:6]]})
    rep.cov["group_verdicts"] = dict(cnt)
    rep.cov["groups"] = len(triples)
    rep.cov["distinct_nontrivial"] = len(nontriv)
    rep.cov["rule"] = nontrivial_rule
