"""Shared by C08 and C03: the SpecLexer.tla engine (class-exhaustive strings) and its replay through lexer.Tokenize."""
import json, os
from vlib import core

import random, string

# two concretisations per class string: the class letters themselves, and an independent random member of the class at every position
# (every upper-case letter, lower-case letter, digit and a set of unclassified ASCII characters occurs thousands of times per run)
REPS = [{"A": "A", "a": "a", "1": "1", "#": "#"}, None]
MEMBERS = {"A": string.ascii_uppercase, "a": string.ascii_lowercase, "1": string.digits, "#": "#~!@%^&*+/\\:;?{}\"'`,$"}


def conc(chars, rep, rnd=None):
    if rep is None:
        return "".join(rnd.choice(MEMBERS[c]) if c in MEMBERS else c for c in chars)
    return "".join(rep.get(c, c) for c in chars)


def lexer_runs(rep, wd, binpath, cfg):
    """TLC explores every string of the config; returns list of (model_record, concrete_string, repidx, library_result)"""
    sub = os.path.join(wd, "lex")
    os.makedirs(sub, exist_ok=True)
    res = core.run_tlc(sub, "MCLex", cfg=cfg, timeout=3000)
    core.tlc_must_finish(res, "SpecLexer")
    rep.add_tlc(res)
    runs = [json.loads(p) for p in sorted(set(res.printed("LEX")))]
    cases, index = [], []
    rnd = random.Random(core.seed() + 17)
    for m in runs:
        for ri, r in enumerate(REPS):
            s = conc(m["s"], r, rnd)
            if ri == 1 and not any(c in MEMBERS for c in m["s"]):
                continue
            cases.append({"s": s})
            index.append((m, s, ri))
    results = core.run_harness(binpath, "lex", cases, sub)
    return res, runs, [(m, s, ri, r) for (m, s, ri), r in zip(index, results)]


def judge_lex(m, s, ri, r):
    """None, or (kind, text): kind = 'violation' | 'drift'"""
    if r.get("skipped"):
        return None
    if r.get("hang") or r.get("crash"):
        return ("violation", "lexer %s on %r" % ("hangs" if r.get("hang") else "crashes: " + r["crash"], s))
    if m["refok"]:
        if r.get("err"):
            return ("violation", "%r is well-formed per the token grammar but rejected: %s at %d" % (s, r["err"]["msg"], r["err"]["pos"]))
        # the model's token text is over class letters: it is a piece of the class string at (or, for a folded group that drops
        # its dash, just behind) the token's position; the expected text is the same piece of the concrete string
        ms = "".join(m["s"])
        def text(t):
            v = "".join(t["val"]) if isinstance(t["val"], list) else t["val"]
            for k in range(0, 3):
                if ms[t["pos"] + k: t["pos"] + k + len(v)] == v:
                    return s[t["pos"] + k: t["pos"] + k + len(v)]
            raise core.Broken("token text %r not found at %d in %r" % (v, t["pos"], ms))
        want = [(t["typ"], text(t), t["pos"]) for t in m["toks"]]
        got = [(t["typ"], t["val"], t["pos"]) for t in r["toks"]]
        if want != got:
            return ("violation", "%r: tokens %s, token grammar says %s" % (s, got, want))
        return None
    if not r.get("err"):
        return ("violation", "%r is not well-formed per the token grammar (no token at %d) but accepted as %s" % (s, m["q"], [(t["typ"], t["val"]) for t in r["toks"]]))
    pos = r["err"]["pos"]
    if not (m["q"] <= pos <= len(s)):
        return ("violation", "%r: error position %d outside [%d, %d]" % (s, pos, m["q"], len(s)))
    if pos != m["err"]:
        return ("drift", "%r: error position %d, scanner model says %d" % (s, pos, m["err"]))
    return None
