"""C20 - applications are independent and deterministic."""
import json, os, random, subprocess
from vlib import core

PROP = "C20"
STEPS = ["declare", "compile", "match", "fill", "run"]


def run(tier, wd):
    rep = core.Report(PROP, tier, "exploration")
    binpath = core.build_harness()
    q = tier == "quick"
    # (1) the shared-variable table, extracted from /repo's sources, is the constant of the interleaving model
    p = subprocess.run([binpath, "globals", core.REPO], capture_output=True, text=True, timeout=300)
    if p.returncode != 0:
        raise core.Broken("globals scan failed: " + p.stderr[-500:])
    scanned = json.loads(p.stdout)
    with open(os.path.join(core.TLA, "apps_globals.expected.json")) as f:
        expected = {g["name"]: g for g in json.load(f)}
    table = []
    for g in scanned:
        e = expected.get(g["name"])
        written = bool(g["writes"]) or (e is None and g["mutable_kind"])
        table.append({"name": (g["pkg"] + "." if g["pkg"] else "") + g["name"], "reads": e["reads"] if e else STEPS, "writes": STEPS if written else []})
        if e is None:
            rep.notes.append("new package-level variable %s.%s (%s): not in tla/apps_globals.expected.json; modelled as read by every step%s" % (
                g["pkg"], g["name"], g["type"], " and written by every step" if written else ""))
        elif g["writes"]:
            rep.notes.append("package-level variable %s is assigned outside init: %s" % (g["name"], g["writes"][:3]))
    for name in expected:
        if name not in [g["name"] for g in scanned]:
            rep.notes.append("package-level variable %s no longer exists (table in tla/apps_globals.expected.json is stale)" % name)
    with open(os.path.join(wd, "globals.json"), "w") as f:
        json.dump(table, f)
    res = core.run_tlc(wd, "Apps", timeout=1800)
    rep.add_tlc(res)
    model_independent = res.finished and not res.violated
    if res.violated:
        rep.notes.append("interleaving model: with this shared-variable table TLC finds an interleaving in which one application reads what another wrote "
                         "(candidate only: the concurrent runs below decide)")
    elif not res.finished:
        raise core.Broken("Apps.tla did not complete:\n" + res.out[-2000:])
    pooled = core.run_tlc(wd, "Apps", cfg="AppsPooled", timeout=600)
    if "Independent" not in pooled.violated:
        raise core.Broken("Apps.tla with PooledContext=TRUE should violate Independent (vacuity guard)")
    # (2) the real library under the race detector: sequential permuted orders, then concurrent goroutines
    racebin = core.build_harness(race=True)
    total_seq = total_conc = ncases = 0
    runs = 3 if q else 30
    rounds, gor = (6, 16) if q else (40, 32)
    samples = []
    for k in range(runs):
        seed = core.seed() * 100 + k
        env = dict(os.environ, GORACE="halt_on_error=0 exitcode=66", GOTRACEBACK="single")
        try:
            pr = subprocess.run([racebin, "conc", str(rounds), str(gor), str(seed)], capture_output=True, text=True, timeout=900 if q else 5400, env=env)
        except subprocess.TimeoutExpired:
            rep.violation("concurrent run (seed %d) did not finish within the time limit (15 min quick / 90 min thorough)" % seed, {"engine": "conc", "seed": seed, "rounds": rounds, "goroutines": gor})
            break      # (the further runs would wait for the same time limit)
        races = pr.stderr.count("WARNING: DATA RACE")
        line = [l for l in pr.stdout.splitlines() if l.startswith("CONC ")]
        if races:
            first = pr.stderr[pr.stderr.index("WARNING: DATA RACE"):][:1500]
            rep.violation("the race detector reports %d data races (seed %d):\n%s" % (races, seed, first), {"engine": "conc", "seed": seed, "rounds": rounds, "goroutines": gor})
        if not line:
            rep.violation("concurrent run died (status %d, seed %d): %s" % (pr.returncode, seed, pr.stderr[-600:]), {"engine": "conc", "seed": seed, "rounds": rounds, "goroutines": gor})
            continue
        o = json.loads(line[0][5:])
        total_seq += o["sequential_runs"]
        total_conc += o["concurrent_runs"]
        samples = o["samples"]
        ncases = max(ncases, o["cases"])
        if o["mismatches"]:
            rep.violation("outcomes differ from the same application run alone (seed %d): %s" % (seed, o["mismatches"][:3]), {"engine": "conc", "seed": seed, "rounds": rounds, "goroutines": gor})
        if not o["shared_defaults_intact"]:
            rep.violation("default slices shared by the builders were modified by running applications (seed %d)" % seed, {"engine": "conc", "seed": seed, "rounds": rounds, "goroutines": gor})
    rep.cov["evaluations"] = total_seq + total_conc
    rep.cov["distinct_nontrivial"] = ncases
    rep.cov["sequential_runs"] = total_seq
    rep.cov["concurrent_runs"] = total_conc
    rep.cov["goroutines"] = gor
    rep.cov["shared_variable_table"] = table
    rep.cov["interleaving_model_independent"] = model_independent
    rep.cov["samples"] = samples or ["(no sample)"]
    rep.cov["traces_validated_against_impl"] = total_seq + total_conc
    rep.cov["rule"] = ("5 application builders (explicit and default specs, sub commands with interceptors, environment-backed options, multi-valued options "
                       "whose default slices live in variables shared by all instances) x the (application, argument vector) cases of harness/conc.go incl. help, rejected input and "
                       "conversion errors: each is run alone, then rebuilt and rerun in %d permuted orders, then by %d goroutines concurrently, all under Go's race "
                       "detector (in every second sequential round the environment variables are changed between the declaration and Run); distinct = the cases (counted by the harness); every run must equal the first. Apps.tla (N=3, all interleavings of the five lifecycle steps) is "
                       "checked with the shared-variable table scanned from the sources" % (rounds, gor))
    rep.assumptions += ["data-race freedom is observed by Go's race detector on the schedules that occurred, not proved; TLA+ contributes the interleaving model "
                        "and the shared-variable table (DESIGN section 7)",
                        "the harness installs its stream/exit stubs once before any goroutine starts; the process environment is fixed"]
    return rep.finish()


def replay(path, wd):
    with open(path) as f:
        o = json.load(f)["replay"]
    racebin = core.build_harness(race=True)
    env = dict(os.environ, GORACE="halt_on_error=0 exitcode=66")
    pr = subprocess.run([racebin, "conc", str(o["rounds"]), str(o["goroutines"]), str(o["seed"])], capture_output=True, text=True, timeout=900, env=env)
    line = [l for l in pr.stdout.splitlines() if l.startswith("CONC ")]
    bad = "WARNING: DATA RACE" in pr.stderr or not line
    if line:
        r = json.loads(line[0][5:])
        bad = bad or r["mismatches"] or not r["shared_defaults_intact"]
    print("replay: races=%d status=%d %s" % (pr.stderr.count("WARNING: DATA RACE"), pr.returncode, line[0][:300] if line else pr.stderr[-300:]))
    return 1 if bad else 0
