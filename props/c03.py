"""C03 - spec compilation and argument parsing always terminate without crashing."""
import itertools, json, os, random
from vlib import core, specgen as g, groups as G, opmodel
from props import lexcommon as lc

PROP = "C03"


def nested_family(p, n, rnd):
    """grammar-derived specs rich in nested repetitions of optional groups and -- inside repetitions"""
    atoms = g.std_atoms(p) + [g.End()]
    out, seen = [], set()

    def gen(d):
        r = rnd.random()
        if d <= 0 or r < 0.25:
            return dict(rnd.choice(atoms))
        if r < 0.40:
            return g.Seq(*[gen(d - 1) for _ in range(2)])
        if r < 0.50:
            return g.Alt(*[gen(d - 1) for _ in range(2)])
        if r < 0.75:
            return g.Optional(gen(d - 1))
        return g.Rep(gen(d - 1))
    fixed = [g.Seq(g.Rep(g.Optional(g.Rep(g.Optional(g.Arg("X")))))), g.Seq(g.Rep(g.Seq(g.Rep(g.Optional(g.Grp(["-a", "-b"])))))),
             g.Seq(g.Rep(g.Optional(g.Seq(g.Rep(g.Optional(g.Arg("X"))), g.Arg("Y"))))), g.Seq(g.Optional(g.Rep(g.Opt("-e"))), g.Arg("X")),
             g.Seq(g.Rep(g.Alt(g.Opt("-a"), g.Arg("X")))), g.Seq(g.Rep(g.Seq(g.End()))), g.Seq(g.Rep(g.Seq(g.Opt("-e"), g.Optional(g.Arg("X")), g.End()))),
             g.Seq(g.Rep(g.Rep(g.Rep(g.Optional(g.Opt("-o")))))), g.Seq(g.Rep(g.Optional(g.Alt(g.End(), g.Arg("X"))))),
             g.Seq(g.Rep(g.Optional(g.Rep(g.Optional(g.Rep(g.Optional(g.Grp(["-a", "-b", "-o", "-e"], all_=True)))))))),
             # env-backed options inside nested repetitions: exponential backtracking before fix 8c7f6d6
             g.Seq(g.Rep(g.Alt(g.Opt("-b"), g.Rep(g.Alt(g.Arg("Y"), g.Opt("-b"))))), g.Rep(g.Alt(g.Rep(g.Opt("-o")), g.Rep(g.Opt("-e"))))),
             g.Seq(g.Rep(g.Seq(g.Seq(g.Alt(g.Arg("X"), g.Grp(["-a", "-b", "-o", "-e"], all_=True)), g.Alt(g.Grp(["-e", "-a"]), g.Grp(["-a", "-b", "-o", "-e"], all_=True))),
                               g.Alt(g.Grp(["-a", "-b"]), g.Rep(g.Opt("-o"))))), g.Opt("-a")),
             # several single-option matchers in one repetition: the search must not explore every order of removing occurrences
             g.Seq(g.Rep(g.Optional(g.Alt(g.Opt("-a"), g.Opt("-b"), g.Opt("-o")))), g.Arg("X")),
             # a long flat sequence of optional groups: the traversals of Prepare must be linear in it
             g.Seq(*([g.Optional(g.Opt("-a")), g.Optional(g.Opt("-b"))] * 20))]
    for e in fixed:
        out.append({"ast": e, "str": g.render(p, e)})
        seen.add(out[-1]["str"])
    tries = 0
    while len(out) < n and tries < n * 50:
        tries += 1
        e = g.Seq(*[gen(4) for _ in range(rnd.choice([1, 2]))])
        if not g.wellformed(e) or len(g.leaves_in_order(e)) > 7:
            continue
        s = g.render(p, e, rnd)
        if s in seen:
            continue
        seen.add(s)
        out.append({"ast": e, "str": s})
    return out


BIG_PROG = {"opts": [{"names": "o%02d" % i, "flag": i % 3 != 0} for i in range(80)], "args": ["X"]}


def run(tier, wd):
    rep = core.Report(PROP, tier, "model_checking")
    binpath = core.build_harness()
    rnd = random.Random(core.seed())
    q = tier == "quick"
    p = g.STD_PROG
    keys = [g.opt_key(o["names"]) for o in p["opts"]]
    core.replay_witnesses(rep, binpath, wd)
    # (1) the scanner machine terminates on every class string (TLC: liveness under weak fairness) and the library's lexer does
    #     on their concretisations
    res, runs, rows = lc.lexer_runs(rep, wd, binpath, "MCLex3" if q else "MCLex4")
    for m, s, ri, r in rows:
        rep.cov["evaluations"] += 1
        if r.get("skipped"):
            continue
        if r.get("hang") or r.get("crash"):
            rep.violation("lexer does not return on %r: %s" % (s, r), {"engine": "lex", "s": s})
    # (1b) the implementation-shaped model of compile + simplify + backtracking (OpModel.tla): TLC checks termination (liveness) and
    #      agreement with the reference on nested-repetition specs x environment sets x argument vectors; the models of the code
    #      before the two termination fixes must diverge (vacuity guard)
    X, E = g.Arg("X"), g.Opt("-e")
    guard1 = opmodel.run(os.path.join(wd), [{"ast": g.Seq(g.Rep(g.Optional(g.Rep(g.Optional(X)))))}], ["x"], [[]], 1, cfg="OpModelAsIsSimplify", timeout=600)[0]
    guard2 = opmodel.run(os.path.join(wd), [{"ast": g.Seq(g.Optional(g.Rep(E)), X)}], ["x"], [["-e"]], 1, cfg="OpModelAsIsEps", timeout=600)[0]
    if not guard1.temporal_violated or "StackBound" not in guard2.violated:
        raise core.Broken("OpModel.tla without the termination fixes should diverge on `[[X]...]...` and `[-e...] X` (vacuity guard)")
    opfam = nested_family(p, 12 if q else 80, rnd)
    opalpha = ["x", "--", "-a", "-ab", "-ov", "-e"]
    openvs = [[], ["-e"], ["-a", "-e"]]
    sub = os.path.join(wd, "opmodel")
    os.makedirs(sub, exist_ok=True)
    opres, opcases = opmodel.run(sub, opfam, opalpha, openvs, 2 if q else 3)
    rep.add_tlc(opres)
    if not opres.finished:
        raise core.Broken("OpModel.tla (with the fixes modelled) does not pass: %s %s\n%s" % (opres.violated, "liveness" if opres.temporal_violated else "", opres.out[-2500:]))
    rep.cov["opmodel_cases"] = len(opcases)
    rep.cov["opmodel_max_apply_calls"] = max(c["steps"] for c in opcases) if opcases else 0
    # (2) arbitrary byte strings and spec-alphabet strings as specs: compile through Run
    cases, kinds = [], []
    alpha = list(" \t[]()|.-=<>") + list("AXOPTIONSabeo18_#") + ["...", "--", "=<v>", "-a", "OPTIONS", "--out", "X", "Y", "[", "]", "(", ")"] + \
        ["\u00e9", "\u2026", "\u00ff", "X\u2026", "--out\u00ef", "--\u00e9"]      # characters outside ASCII, also right behind a name
    nbytes, nalpha = (1000, 12000) if q else (30000, 200000)
    for _ in range(nbytes):
        bs = bytes(rnd.randrange(256) for _ in range(rnd.randint(0, 64)))
        cases.append({"id": len(cases), "prog": 0, "spec": bs.decode("latin-1"), "env": [], "argv": [rnd.choice(["x", "-a", "--"])] * rnd.randint(0, 2)})
        kinds.append("bytes")
    for _ in range(nalpha):
        s = "".join(rnd.choice(alpha) for _ in range(rnd.randint(1, 16)))
        if rnd.random() < 0.3:      # leading blanks, and an error only the parser stage can raise near the end
            s = rnd.choice([" ", "  ", "\t", "    "]) + rnd.choice(["X ", "[-a] ", "X -- ", ""]) + rnd.choice(["Z", "-z", "-- -a", "(X", "X )", "--zz", "X |"])
        cases.append({"id": len(cases), "prog": 0, "spec": s, "env": rnd.sample(keys, rnd.choice([0, 1, 2])), "argv": [rnd.choice(["x", "-a", "--", "-ov", "y"]) for _ in range(rnd.randint(0, 3))]})
        kinds.append("alpha")
    # (3) grammar-derived specs with nested repetitions / -- in repetitions x argument vectors x every subset of env-backed options
    fam = nested_family(p, 150 if q else 1500, rnd)
    envsets = [list(c) for n in range(5) for c in itertools.combinations(keys, n)]
    for s in fam:
        lines = [[], ["x"], ["--"], ["-z"], ["x", "y", "x", "y", "x", "y", "x", "y"], ["x", "y"] * 6, ["-a", "-b", "-ov"] * 7 + ["x", "y"], ["-a", "-b", "-ab", "-ba", "-a"], ["--", "--", "-a"], ["-ov", "-o", "v", "x"],
                 # empty and one-character items, a dash, an equals sign alone
                 [""], ["", "x"], ["x", ""], ["-a", "", "-b"], ["--", ""], ["-"], ["="], ["-o", ""], ["-o="], ["--="], ["-=", "x"],
                 # a valued option without value as the very last item, in every spelling
                 ["--out"], ["-a", "--out"], ["--out", "v", "--out"], ["-o"], ["-ao"], ["x", "--out"]]
        for _ in range(4 if q else 8):
            items = g.sample_items(p, s["ast"], rnd)
            if rnd.random() < 0.5:
                items = g.perturb(p, items, rnd)
            lines.append(G.random_line(p, items[:10], rnd) if g.marker_ok(items) else g.render_items(items[:10]))
        for env in envsets:
            for argv in lines:
                cases.append({"id": len(cases), "prog": 0, "spec": s["str"], "env": env, "argv": argv})
                kinds.append("nested")
    # the cases TLC walked through the model also run on the library; a different verdict or derivation is drift (the
    # property-level comparison is C01/C02's), a hang or crash is a violation like everywhere else
    opstart = len(cases)
    for c in opcases:
        cases.append({"id": len(cases), "prog": 0, "spec": opfam[c["si"]]["str"], "env": c["env"], "argv": c["argv"]})
        kinds.append("nested")
    # (4) a command with 80 options (more than any machine word has bits), some of the late ones backed by the environment
    big = BIG_PROG
    bigstart = len(cases)
    for spec in ("[OPTIONS] [X]", None, "[OPTIONS] X..."):
        for env in ([], ["--o70"], ["--o03"], ["--o64", "--o79"], ["--o63", "--o65", "--o66"]):
            for argv in ([], ["v"], ["--o01", "v"], ["--o69=w", "v", "--o71"], ["--o72", "--o75=1", "--o78=2", "--o01"]):
                cases.append({"id": len(cases), "prog": 1, "spec": spec, "env": env, "argv": argv})
                kinds.append("nested")
    pf = os.path.join(wd, "progs.json")
    with open(pf, "w") as f:
        json.dump([p, big], f)
    results = core.run_harness(binpath, "exec", cases, wd, env={"HARNESS_PROGS": pf}, deadline_ms=3000)
    from vlib import refenum
    drift = 0
    for c, r in zip(opcases, results[opstart:]):
        if r.get("skipped") or r.get("hang") or r.get("crash") or "ran" not in r:
            continue
        if r["ran"] != c["accepted"] or (r["ran"] and refenum.observed_map(r) != c["binds"]):
            drift += 1
            if drift <= 3:
                rep.notes.append("drift: spec=%r env=%s argv=%s: library %s %s, OpModel %s %s" % (opfam[c["si"]]["str"], c["env"], c["argv"],
                                 "accepts" if r["ran"] else "rejects", sorted(refenum.observed_map(r)), "accepts" if c["accepted"] else "rejects", sorted(c["binds"])))
    # step-level conformance of the modelled algorithm (drift only): (a) the prepared automaton of the model is the library's,
    # state by state and transition by transition; (b) the sequence of apply calls (state, arguments, options-ended flag) the
    # library made - reconstructed from the recorded Matcher.Match calls - is the sequence the model made
    from vlib import structeq
    dres = core.run_harness(binpath, "dump", [{"prog": 0, "spec": s_["str"]} for s_ in opfam], sub, env={"HARNESS_PROGS": pf})
    graphs = {c["si"]: c["graph"] for c in opcases if c["graph"]}
    auto_same = 0
    for i, (s_, r) in enumerate(zip(opfam, dres)):
        if r.get("skipped") or not r.get("auto") or i not in graphs:
            continue
        a = r["auto"]
        why = opmodel.same_automaton(graphs[i], {"term": a["term"], "trans": [[{"l": structeq.label(t["l"]), "n": t["n"]} for t in st] for st in a["trans"]]})
        if why:
            drift += 1
            rep.notes.append("drift: prepared automaton of %r: %s" % (s_["str"], why))
        else:
            auto_same += 1
    mres = core.run_harness(binpath, "match", [{"id": k, "prog": 0, "spec": opfam[c["si"]]["str"], "env": c["env"], "argv": c["argv"]} for k, c in enumerate(opcases)],
                            sub, env={"HARNESS_PROGS": pf}, deadline_ms=3000)
    hist_same = hist_diff = 0
    for c, r in zip(opcases, mres):
        if r.get("skipped") or r.get("hang") or r.get("crash") or c["si"] not in graphs or len(r.get("events", [])) >= 4000:
            continue
        why = opmodel.compare_history(c, graphs[c["si"]], r["events"])
        if why:
            hist_diff += 1
            if hist_diff <= 3:
                rep.notes.append("drift: search of %r on %s (env %s): %s" % (opfam[c["si"]]["str"], c["argv"], c["env"], why))
        else:
            hist_same += 1
    drift += hist_diff
    rep.cov["opmodel_automata_identical"] = auto_same
    rep.cov["opmodel_search_histories_identical"] = hist_same
    rep.cov["opmodel_drift"] = drift
    cnt = {"spec_error": 0, "accepted": 0, "usage_error": 0}
    nontriv = set()
    for c, k, r in zip(cases, kinds, results):
        rep.cov["evaluations"] += 1
        why = None
        if r.get("skipped"):
            continue
        if r.get("hang"):
            why = "does not return within 3 s"
        elif r.get("crash"):
            why = "the process died: " + r["crash"]
        elif r.get("panic"):
            why = "Run panicked with a value that is not a spec error: " + r["panic"]
        elif r.get("specerr"):
            cnt["spec_error"] += 1
            blen = len(c["spec"].encode("latin-1")) if k == "bytes" else len(c["spec"].encode("utf-8"))
            if not (0 <= r["specerr"]["pos"] <= blen):
                why = "spec error position %d outside the string (length %d)" % (r["specerr"]["pos"], blen)
            elif k == "nested":
                why = "a grammar-derived spec does not compile: %s at %d" % (r["specerr"]["msg"], r["specerr"]["pos"])
        elif r.get("ran"):
            cnt["accepted"] += 1
        elif r.get("err"):
            cnt["usage_error"] += 1
        else:
            why = "no documented outcome: %s" % json.dumps(r)
        if why:
            rep.violation("spec=%r env=%s argv=%s: %s" % (c["spec"], c["env"], c["argv"], why), {"engine": "exec", "case": c, "kind": k})
        if k == "nested" or r.get("ran") or r.get("err"):
            nontriv.add((c["spec"], tuple(c["env"]), tuple(c["argv"])))
    rep.cov["samples"] = [{"spec": fam[i]["str"], "env": envsets[-1], "argv": ["x", "y"]} for i in range(0, min(len(fam), 12), 3)]
    rep.cov["outcomes"] = cnt
    rep.cov["nested_specs"] = len(fam)
    rep.cov["env_subsets"] = len(envsets)
    rep.cov["traces_validated_against_impl"] = len(rows) + len(cases)
    rep.cov["distinct_nontrivial"] = len(nontriv)
    rep.cov["rule"] = ("(1) every string over 17 character classes up to length %d: TLC checks that the scanner machine terminates (liveness), the library's lexer runs "
                       "on the concretisations; (1b) OpModel.tla (parser graph construction, simplify with its expanded set, sortTransitions, apply with its call stack and "
                       "idle-cycle cut, the four matchers) is explored step by step on nested-repetition specs x 3 environment sets x all argument vectors up to the bound: "
                       "TLC checks termination, stack and transition bounds and agreement with RefSemantics; (2) random byte strings up to 64 bytes and random strings over the spec alphabet, compiled and run in sacrificial worker "
                       "processes (3 s deadline per case, 64 MiB stack limit, crash attributed to the case after the last flushed result); (3) grammar-derived specs "
                       "with nested repetitions of optional groups and -- inside repetitions x 12-16 argument vectors x %s subsets of environment-backed options. "
                       "Outcome must be: spec error with 0 <= Pos <= len whose Error() does not panic / accepted / usage error. non-trivial = compiled" % (
                           3 if q else 4, "all 16"))
    rep.assumptions += ["OpModel.tla is a model of the algorithm as read from the sources; a library that differs from it without breaking a property is reported as drift only"]
    return rep.finish()


def replay(path, wd):
    with open(path) as f:
        o = json.load(f)["replay"]
    binpath = core.build_harness()
    if o["engine"] == "lex":
        r = core.run_harness(binpath, "lex", [{"s": o["s"]}], wd, shards=1)[0]
        print("replay:", json.dumps(r))
        return 1 if (r.get("hang") or r.get("crash")) else 0
    pf = os.path.join(wd, "progs.json")
    with open(pf, "w") as f:
        json.dump([g.STD_PROG, BIG_PROG], f)
    r = core.run_harness(binpath, "exec", [o["case"]], wd, env={"HARNESS_PROGS": pf}, shards=1, deadline_ms=3000)[0]
    print("replay: %s -> %s" % (json.dumps(o["case"]), json.dumps(r)))
    bad = r.get("hang") or r.get("crash") or r.get("panic") or (r.get("specerr") and o["kind"] == "nested")
    return 1 if bad else 0
