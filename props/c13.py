"""C13 - typed values agree with strconv; unparsable values are usage errors."""
import json, os, random
from vlib import core, values as V
from props import valcommon as vc

PROP = "C13"
EDGE = {
 "int": ["0", "-0", "+5", "007", "41", "-3", "9223372036854775807", "9223372036854775808", "-9223372036854775808", "-9223372036854775809",
         "0x10", "0b11", "0o7", "1_000", "1e3", "4.0", " 5", "5 ", "\t5", "", "١٢", "１２", "--5", "+-5", "5\n", "NaN", "-", "+", "1,2", "12abc"],
 "float": ["2.5", ".5", "5.", "1e309", "-1e309", "1e-400", "inf", "-Inf", "+inf", "infinity", "Infinity", "NaN", "nan", "0x1p-2", "0x1.8p1", "1_0.5", "1e", "e1",
           " 1", "1 ", "", "1,5", "１.５", "4.9e-324", "1.7976931348623157e308", "1.7976931348623159e308", "-0", "0x", "1e+5", "1E5", ".", "+.5e-1", "in", "infi"],
 "bool": ["true", "false", "1", "0", "t", "f", "T", "F", "TRUE", "FALSE", "True", "False", "tRuE", "yes", "no", "on", "", " true", "true ", "2", "-1", "TrUE", "tr"],
 "string": ["plain", " lead", "trail ", "\ttab", "a,b", "-", "--", "-x", "a=b", "=", "éè", "日本", "a\nb", "", "\x00z", "%s", "\"q\""],
}


def rand_token(rnd, typ):
    alphabet = {"int": "0123456789+-_x e.", "float": "0123456789+-_.eEpxinfNa ", "bool": "truefalsTRUEFALS01 ", "string": "abc ,-=é\t"}[typ]
    return "".join(rnd.choice(alphabet) for _ in range(rnd.randint(1, 8)))


def run(tier, wd):
    rep = core.Report(PROP, tier, "exploration")
    binpath = core.build_harness()
    rnd = random.Random(core.seed())
    q = tier == "quick"
    # 1. build the concrete cases: token x type x role x route
    cases, meta = [], []
    for btyp, toks in EDGE.items():
        toks = list(toks) + [rand_token(rnd, btyp) for _ in range(20 if q else 5000)]
        for typ in [t for t in V.BUILTIN if V.base(t) == btyp]:
            multi = typ in V.MULTI
            good = V.VALID[btyp][0]
            for tok in toks:
                for role in ("opt", "arg"):
                    default = V.DEFAULTS[typ][0]
                    # command line, single token; command line, bad token not in last position; environment
                    routes = [("cli", [tok]), ("cli", [tok, good]), ("cli", [good, tok]), ("env", [tok])]
                    if role == "arg":
                        # ... and behind an option written in the spec that its environment variable satisfies without a token
                        routes.append(("clix", [tok, good]))
                    for route, seq in routes:
                        if route in ("cli", "clix"):
                            if role == "opt" and any(t == "" for t in seq):
                                continue   # an empty value cannot be written as -o= (it is not an occurrence, C01)
                            if role == "opt":
                                argv = [rnd.choice(["-o=", "--opt="]) + t for t in seq]
                                spec = "[-o]..."
                            else:
                                argv = ["--"] + list(seq)   # behind the marker every token is a positional, verbatim (C09)
                                spec = "[A...]"
                            case = {"type": typ, "role": role, "ptr": rnd.random() < 0.5, "default": default, "envs": [], "cli": list(seq), "argv": argv, "spec": spec}
                            if route == "clix":
                                case.update(extraflag=True, extraenv=True, spec="[-x] " + spec)
                                route = "cli"
                        else:
                            if multi:
                                if "," in tok:
                                    continue
                                raw = "%s,%s" % (good, tok)
                                elems = [good, tok.strip(" \t\n\r\x0b\x0c\x85\xa0")]
                            else:
                                raw = tok
                                elems = [tok]
                            if raw == "" or "\x00" in raw:
                                continue
                            case = {"type": typ, "role": role, "ptr": rnd.random() < 0.5, "default": default,
                                    "envs": [{"name": "VERIF_C13", "state": "set", "value": raw}], "cli": [], "argv": [],
                                    "spec": "[-o]..." if role == "opt" else "[A...]"}
                            case["_elems"] = elems
                        cases.append(case)
                        meta.append((route, multi))
    # 1b. string types, byte for byte: tokens that are not valid UTF-8 (and some that are), in every spelling of an option value
    # (attached to a short name too) and as arguments; they travel hex-encoded, the specification sees their hex names
    RAW = [b"\xff", b"caf\xe9", b"\xc3(", b"a\x80b", b"\xe6\x97", "\u65e5\u672c".encode(), b"ok", b"\xf0\x9f", b"x\xc0\xafy", b"\xed\xa0\x80"]
    RAW += [bytes(rnd.choice([0x61, 0x80, 0xff, 0xc3, 0x28, 0xe9, 0x20]) for _ in range(rnd.randint(1, 5))) for _ in range(10 if q else 400)]
    RAW = [t for t in RAW if t[:1] not in (b"-", b"=", b" ") and t.strip() == t]
    for typ in ("string", "strings"):
        for seq in [[t] for t in RAW] + [[rnd.choice(RAW), t] for t in RAW]:
            for role, forms in (("opt", ("eqs", "eql", "att", "seps", "sepl")), ("arg", ("pos",))):
                for form in forms:
                    hx = lambda b: b.hex()
                    argv = []
                    for t in seq:
                        argv += {"eqs": [b"-o=" + t], "eql": [b"--opt=" + t], "att": [b"-o" + t], "seps": [b"-o", t], "sepl": [b"--opt", t], "pos": [t]}[form]
                    case = {"type": typ, "role": role, "ptr": rnd.random() < 0.5, "default": V.DEFAULTS[typ][0], "envs": [], "cli": [hx(t) for t in seq],
                            "argv": [], "argv_hex": [hx(a) for a in argv], "spec": "[-o]..." if role == "opt" else "[A...]"}
                    cases.append(case)
                    meta.append(("cli", typ in V.MULTI))
    # 1c. the empty string is a value like any other for the string types: as a separate token behind the option name, as an argument
    for typ in ("string", "strings"):
        for argv, toks in ((["-o", ""], [""]), (["--opt", ""], [""]), (["-o", "a", "--opt", "", "-o=c"], ["a", "", "c"]), (["-o", "", "-o", "b"], ["", "b"])):
            cases.append({"type": typ, "role": "opt", "ptr": rnd.random() < 0.5, "default": V.DEFAULTS[typ][0], "envs": [], "cli": [t.encode().hex() for t in toks],
                          "argv": [], "argv_hex": [a.encode().hex() if a else "" for a in argv], "spec": "[-o]..."})
            meta.append(("cli", typ in V.MULTI))
        for argv, toks in ((["", "b"], ["", "b"]), ([""], [""]), (["a", ""], ["a", ""])):
            cases.append({"type": typ, "role": "arg", "ptr": False, "default": V.DEFAULTS[typ][0], "envs": [], "cli": [t.encode().hex() for t in toks],
                          "argv": [], "argv_hex": [a.encode().hex() if a else "" for a in argv], "spec": "[A...]"})
            meta.append(("cli", typ in V.MULTI))
    # 2. the library runs them and strconv says what each token is (trusted oracle for parsing itself)
    send = [{k: v for k, v in c.items() if not k.startswith("_")} for c in cases]
    results = core.run_harness(binpath, "values", send, wd)
    # 3. the recorded runs are validated by TLC against Values.tla with ok := strconv's verdict (binding B)
    abstracts = []
    for c, (route, multi), r in zip(cases, meta, results):
        if r.get("hang") or r.get("crash") or r.get("skipped"):
            abstracts.append({"multi": multi, "envs": [], "cli": []})
            continue
        def ok(t):
            return r["canon"][t]["ok"] if t in r["canon"] else True
        if route == "cli":
            abstracts.append({"multi": multi, "envs": [], "cli": [{"id": t, "ok": ok(t)} for t in c["cli"]]})
        else:
            abstracts.append({"multi": multi, "envs": [{"state": "set", "elems": [{"id": t, "ok": ok(t)} for t in c["_elems"]]}], "cli": []})
    res, clean, dev = V.predict(wd, abstracts)
    rep.add_tlc(res)
    nontriv = set()
    rejected = 0
    for c, (route, multi), r, pc, pd in zip(cases, meta, results, clean, dev):
        rep.cov["evaluations"] += 1
        send_c = {k: v for k, v in c.items() if not k.startswith("_")}
        if r.get("skipped"):
            continue
        if r.get("hang") or r.get("crash"):
            rep.violation("%s: %s" % (vc.describe(c), r), {"engine": "values", "case": send_c, "kind": "dead"})
            continue
        want = V.expected_value(c, pc, r)
        if "argv_hex" in c:
            want = pc["val"]      # the hex names of the tokens
            r = dict(r, value=r.get("value_hex", []))
        why = None
        if pc["usage"]:
            rejected += 1
            if r["ran"] or not r.get("err"):
                why = "a token strconv rejects was accepted: Action ran=%s err=%r value=%s" % (r["ran"], r.get("err"), r["value"])
        else:
            if not r["ran"]:
                why = "every token is valid for the type but the invocation failed: %r" % r.get("err")
            elif r["value"] != want:
                devwant = V.expected_value(c, pd, r)
                if not (route == "env" and multi and r["value"] == devwant):   # Dev_EnvWipesDefault is C06's finding
                    why = "bound %s, strconv/specification says %s" % (r["value"], want)
        if why:
            rep.violation("%s: %s" % (vc.describe(c), why), {"engine": "values", "case": send_c, "kind": "c13", "usage": pc["usage"], "expected": want})
        toks = tuple(c["cli"]) if route == "cli" else tuple(c["_elems"])
        nontriv.add((c["type"], c["role"], route, toks))
        if len(rep.cov["samples"]) < 6 and rnd.random() < 0.003:
            rep.cov["samples"].append({"case": vc.describe(c), "strconv": r["canon"], "specification": {"usage_error": pc["usage"], "value": want}, "library": {"ran": r["ran"], "value": r["value"]}})
    from props import valcommon
    valcommon.pair_part(rep, wd, binpath, rnd, "c13-pair", 1 if q else 6)
    rep.cov["traces_validated_against_impl"] = len(cases)
    rep.cov["distinct_nontrivial"] = len(nontriv)
    rep.cov["cases_with_a_rejected_token"] = rejected
    rep.cov["rule"] = ("curated edge tokens per base type (signs, bases, underscores, exponents, overflow, inf/NaN, unicode digits, padding, empty) plus random strings "
                       "over a type-specific alphabet x {single, multi-valued} x {option, argument} x {command line: alone, before a valid token, after a valid token; "
                       "environment}; string types also with byte strings that are not valid UTF-8 in every option spelling (=, attached, separate) and as arguments; strconv's verdict on each token (computed by the harness) is the ok flag of the Values.tla case, TLC predicts usage error / bound "
                       "value and the recorded run must agree; distinct = (type, role, route, tokens)")
    rep.assumptions += ["strconv is the trusted oracle for parsing itself (DESIGN section 7); 'all strings' is sampled, not enumerated",
                        "an empty option value cannot be delivered (-o= is not an occurrence); empty strings are delivered as arguments and via multi-valued lists only"]
    return rep.finish()


def replay(path, wd):
    def judge(o, r):
        if "expected2" in o:
            return vc.pair_replay_bad(o, r)
        if o.get("kind") == "dead":
            return bool(r.get("hang") or r.get("crash"))
        if o["usage"]:
            return r.get("ran") or not r.get("err")
        if "argv_hex" in o["case"]:
            return not r.get("ran") or r.get("value_hex", []) != o["expected"]
        return not r.get("ran") or r.get("value") != o["expected"]
    return vc.replay_values(path, wd, judge)
