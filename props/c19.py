"""C19 - custom value types are driven through the documented protocol."""
import itertools, random
from vlib import core, values as V
from props import valcommon as vc

PROP = "C19"


def content(log, multi):
    vals = []
    for c in log:
        if c == "C":
            vals = []
        elif c.startswith("S:"):
            vals = vals + [c[2:]] if multi else [c[2:]]
    return vals


def run(tier, wd):
    rep = core.Report(PROP, tier, "model_checking")
    binpath = core.build_harness()
    rnd = random.Random(core.seed())
    q = tier == "quick"
    cases, abstracts = [], []
    n = 0
    # the third kind of type has the IsBoolFlag method but answers false: an ordinary valued type
    for b, m, d in itertools.product([False, True, "false"], [False, True], [False, True]):
        caps = {"bool": b is True, "boolfalse": b == "false", "multi": m, "isdefault": d, "failon": list(V.INVALID["custom"])}
        for role in ("opt", "arg"):
            for envpat in V.env_patterns(2 if q else 3):
                for clipat in V.cli_patterns(2 if q else 3, True):
                    n += 1
                    c, a = V.concrete("custom", role, False, None, envpat, clipat, rnd, custom=caps, tag="_%d" % (n % 7))
                    if rnd.random() < 0.3 and c["cli"] and role == "arg":
                        # a token with blanks must arrive unchanged (only environment lists are trimmed)
                        c["cli"][0] = a["cli"][0]["id"] = " " + c["cli"][0] + " " if a["cli"][0]["ok"] else c["cli"][0]
                        c["argv"] = V.deliver_arg(c["cli"])
                        if c["argv"] and c["argv"][0] == "--":
                            c["argv"], c["spec"] = c["argv"][1:], "-- [A...]"
                    cases.append(c)
                    abstracts.append(a)
    # bool-capable custom options inside folded clusters and option groups, next to a plain flag -x, with and without an
    # environment value: every occurrence is one Set("true")
    clusters = [["-o"], ["-oo"], ["-ox"], ["-xo"], ["-ox", "-o"], ["-xoo"], ["-o", "-xo"], ["-oxo"], ["-x", "-o", "--opt"], ["-oo", "-o=true"],
                ["--opt", "-xo"], ["-ooo"]]
    for m, d in itertools.product([False, True], repeat=2):
        caps = {"bool": True, "multi": m, "isdefault": d, "failon": list(V.INVALID["custom"])}
        for envpat in [(), ("valid",), ("unset", "valid")]:
            for spec in ["[-ox]", "[OPTIONS]", "[-xo]...", "[-o... -x]" if False else "[-x] [-o]..."]:
                for argv in clusters:
                    n += 1
                    c, a = V.concrete("custom", "opt", False, None, envpat, (), rnd, custom=caps, tag="_%d" % (n % 7))
                    k = sum(t.count("o") if not t.startswith("--") else 1 for t in [x.split("=")[0] for x in argv])
                    c["cli"], c["argv"], c["spec"], c["extraflag"] = ["true"] * k, list(argv), spec, True
                    a["cli"] = [{"id": "true", "ok": True}] * k
                    cases.append(c)
                    abstracts.append(a)
    # many values at one level, spread over two containers (the custom one and a plain flag -x): the order of the custom one's tokens
    for m, d in itertools.product([False, True], repeat=2):
        caps = {"bool": False, "multi": m, "isdefault": d, "failon": list(V.INVALID["custom"])}
        for nvals, nflags in ((9, 5), (14, 3), (20, 8)):
            n += 1
            c, a = V.concrete("custom", "opt", False, None, (), ("valid",) * nvals, rnd, custom=caps, tag="_%d" % (n % 7))
            argv, k = [], 0
            for i, t in enumerate(c["cli"]):
                argv += rnd.choice([["-o", t], ["--opt=" + t], ["-o" + t]])
                if k < nflags and i % 2 == 0:
                    argv.append("-x")
                    k += 1
            c["argv"], c["spec"], c["extraflag"] = argv, "[-x | -o]...", True
            cases.append(c)
            abstracts.append(a)
    # a multi-valued type whose dynamic type is a map used by value (such a value cannot be a map key or be compared)
    caps = {"bool": False, "multi": True, "isdefault": False, "maptype": True, "failon": list(V.INVALID["custom"])}
    for role in ("opt", "arg"):
        for envpat in V.env_patterns(1):
            for clipat in V.cli_patterns(2, True):
                n += 1
                c, a = V.concrete("custom", role, False, None, envpat, clipat, rnd, custom=caps, tag="_%d" % (n % 7))
                cases.append(c)
                abstracts.append(a)
    # the application ran before under ANOTHER spec string (Spec assigned between two runs): the calls of the observed run are those of
    # the spec in force then
    for m, d in itertools.product([False, True], repeat=2):
        caps = {"bool": False, "multi": m, "isdefault": d, "failon": list(V.INVALID["custom"])}
        for role, prespec, pre in (("opt", "[-x] [-o]", ["-x", "-o", "t7"]), ("arg", "[-x] A", ["t7"]), ("opt", "-o -x", ["-ot8", "-x"])):
            for clipat in (("valid",), ("valid", "valid"), ("valid", "invalid")):
                n += 1
                c, a = V.concrete("custom", role, False, None, (), clipat, rnd, custom=caps, tag="_%d" % (n % 7))
                if c["spec"].startswith("--"):
                    continue
                c.update(extraflag=True, prerun=[pre], prespec=prespec)
                cases.append(c)
                abstracts.append(a)
    # an empty string as a separate option value; a literal -- among the arguments after options were ended
    for m, d in itertools.product([False, True], repeat=2):
        caps = {"bool": False, "multi": m, "isdefault": d, "failon": list(V.INVALID["custom"])}
        for toks, argv, spec, role in ([[""], ["-o", ""], "[-o]...", "opt"], [[""], ["--opt", ""], "[-o]...", "opt"], [["t1", ""], ["-ot1", "-o", ""], "[-o]...", "opt"],
                                       [["", "t2"], ["--opt", "", "--opt=t2"], "[-o]...", "opt"],
                                       [["t1", "--", "t2"], ["--", "t1", "--", "t2"], "[A...]", "arg"], [["t1", "--"], ["--", "t1", "--"], "[A...]", "arg"],
                                       [["--", "t1"], ["--", "--", "t1"], "[A...]", "arg"], [["t1", "--", "--"], ["t1", "--", "--", "--"], "[A...]", "arg"]):
            if len(toks) > 1 and not m and role == "opt" and False:
                continue
            n += 1
            c, a = V.concrete("custom", role, False, None, (), ("valid",) * len(toks), rnd, custom=caps, tag="_%d" % (n % 7))
            c["cli"], c["argv"], c["spec"] = list(toks), list(argv), spec
            a["cli"] = [{"id": t, "ok": True} for t in toks]
            cases.append(c)
            abstracts.append(a)
    rows = vc.run_cases(rep, wd, binpath, cases, abstracts, "c19")
    nontriv = set()
    for case, a, clean, dev, r in rows:
        if r.get("skipped"):
            continue
        if r.get("hang") or r.get("crash"):
            rep.violation("%s: %s" % (vc.describe(case), r), {"engine": "values", "case": case, "expected": None})
            continue
        why = None
        # declaration phase: the property fixes what the value must hold afterwards (the tokens of the first valid variable, in
        # order), not the exact calls; the content is what the calls leave behind (Clear empties, an accepted Set appends/replaces)
        if content(r["envlog"], case["custom"]["multi"]) != content(clean["envlog"], case["custom"]["multi"]):
            why = "declaration-time calls %s leave %s, specification says the value holds %s (calls %s)" % (
                r["envlog"], content(r["envlog"], case["custom"]["multi"]), content(clean["envlog"], case["custom"]["multi"]), clean["envlog"])
        elif r["filllog"] != clean["filllog"]:
            why = "calls during Run %s, specification says %s" % (r["filllog"], clean["filllog"])
        elif clean["usage"] != (not r["ran"] and bool(r.get("err"))):
            why = "usage error expected=%s, library ran=%s err=%r" % (clean["usage"], r["ran"], r.get("err"))
        elif r["ran"] and r["sbu"] != clean["sbu"]:
            why = "SetByUser=%s, specification says %s" % (r["sbu"], clean["sbu"])
        if why:
            rep.violation("caps=%s %s: %s" % (case["custom"], vc.describe(case), why),
                          {"engine": "values", "case": case, "expected": {"envlog": clean["envlog"], "filllog": clean["filllog"], "usage": clean["usage"]}})
        if clean["filllog"] or clean["envlog"]:
            nontriv.add((tuple(sorted(case["custom"].items(), key=str)).__repr__(), case["role"], tuple(clean["envlog"]), tuple(clean["filllog"])))
        if len(rep.cov["samples"]) < 5 and len(clean["filllog"]) >= 2 and len(clean["envlog"]) >= 2 and rnd.random() < 0.05:
            rep.cov["samples"].append({"case": vc.describe(case), "caps": {k: case["custom"][k] for k in ("bool", "multi", "isdefault")},
                                       "specification": {"envlog": clean["envlog"], "filllog": clean["filllog"]}, "library": {"envlog": r["envlog"], "filllog": r["filllog"]}})
    rep.cov["distinct_nontrivial"] = len(nontriv)
    rep.cov["exhaustive"] = True
    rep.cov["rule"] = ("8 combinations of IsBoolFlag/Clear/IsDefault x option/argument x every list of <= %d environment variables (unset, empty, valid, one "
                       "rejected element) x every sequence of <= %d command-line tokens each accepted or rejected by Set; the call log Values.tla builds "
                       "(Clear / Set per token, in the declaration phase and in the fill phase) must equal the calls the recording custom type saw; bool-capable "
                       "options are also given as bare flags (Set('true')); distinct = different (capabilities, role, call logs)" % ((2, 2) if q else (3, 3)))
    rep.assumptions += ["the custom type rejects the tokens bad, bad2.. and accepts everything else"]
    return rep.finish()


def replay(path, wd):
    def judge(o, r):
        e = o["expected"]
        if e is None:
            return bool(r.get("hang") or r.get("crash"))
        return r.get("filllog") != e["filllog"] or r.get("envlog") != e["envlog"] or e["usage"] != (not r.get("ran") and bool(r.get("err")))
    return vc.replay_values(path, wd, judge)
