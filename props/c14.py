"""C14 - help and version requests short-circuit everything else."""
import random
from vlib import core, tree as T
from props import treecommon as tc

PROP = "C14"
CLAUSES = ("help", "routing", "policy", "bindings")


def run(tier, wd):
    rep = core.Report(PROP, tier, "model_checking")
    binpath = core.build_harness()
    rnd = random.Random(core.seed())
    q = tier == "quick"
    alphabet = ["c1", "d1", "a1", "b1", "e2", "get", "x", "-f", "-g", "--", "-h", "--help", "-v"] if q else \
               ["c1", "k1", "c2", "d1", "a1", "b1", "e1", "e2", "x", "-f", "-n=zz", "-g", "--", "-h", "--help", "-v", "--version"]
    trs, rows = tc.run_tree(rep, wd, binpath, alphabet, 3 if q else 4, ["continue", "exit", "panic"], "c14")
    if not q:
        # random command trees (depth <= 3, fan-out <= 3, aliases) with a shorter bound
        rt = T.random_trees(rnd, 8)
        trs2, rows2 = tc.run_tree(rep, wd, binpath, alphabet, 3, sorted(set(c["policy"] for c, _ in rows)), "%s-random" % PROP.lower(), trees=rt)
        off = len(trs)
        trs = trs + trs2
        for c, r in rows2:
            c["ti"] += off
        rows = rows + rows2
    # a six-level tree with siblings at every level, explored with listed vectors (paths through aliases, help tokens at every
    # position, behind --, after invalid arguments)
    dt = T.deep_tree()
    trs3, rows3 = tc.run_tree(rep, wd, binpath, alphabet, 1, sorted(set(c["policy"] for c, _ in rows)), "%s-deep" % PROP.lower(), trees=[dt])
    off3 = len(trs)
    trs = trs + trs3
    for c, r in rows3:
        c["ti"] += off3
    rows = rows + rows3
    # the same help requests on ONE application object that served other requests before (commands that declare nothing can be
    # Run again): the request itself first, then the help of the sibling at every level, then the request again
    dtb = T.deep_tree(bare=True)
    trs4, rows4 = tc.run_tree(rep, wd, binpath, alphabet, 1, ["continue"], "%s-deepbare" % PROP.lower(), trees=[dtb])
    chain = ["p1", "p2", "p3", "p4", "p5"]
    sib_help = [chain[:k - 1] + ["q%d" % k, "--help"] for k in range(1, 6)]
    again = [c for c, r in rows4 if c["kind"] == "help" and not c["unclaimed"] and not r.get("skipped")]
    res4 = core.run_harness(binpath, "tree", [T.harness_case(dtb, c["policy"], c["argv"], [c["argv"]] + sib_help) for c in again], wd)
    for c, r in zip(again, res4):
        rep.cov["evaluations"] += 1
        if r.get("skipped"):
            continue
        js = [j for j in T.judge(c, r) if j[0] in CLAUSES]
        if js:
            o = tc.replay_obj([dtb], c)
            o["harness_case"] = T.harness_case(dtb, c["policy"], c["argv"], [c["argv"]] + sib_help)
            rep.violation("after earlier help requests on the same application: " + tc.describe([dtb], c) + ": " + "; ".join(t for _, t in js), o)
    rep.cov["rerun_cases"] = len(again)
    # sub commands whose names are spelled like options; a hidden command (with a child) declared before its visible siblings: help
    # requests after the application already printed its own help
    pols = sorted(set(c["policy"] for c, _ in rows))
    tc.add_tree(rep, wd, binpath, alphabet, pols, "c14-dash", T.dash_tree(), trs, rows)
    tc.add_tree(rep, wd, binpath, alphabet, pols, "c14-blank", T.blank_tree(), trs, rows)
    tc.add_tree(rep, wd, binpath, alphabet, pols, "c14-alias", T.alias_tree(), trs, rows)
    rows_h = tc.add_tree(rep, wd, binpath, alphabet, ["continue"], "c14-hidden", T.hidden_tree(), trs, rows)
    rep.cov["rerun_cases"] += tc.rerun(rep, wd, binpath, trs, [(c, r) for c, r in rows_h if c["kind"] == "help"],
                                       lambda c: [["-h"], ["bogus"], c["argv"]], CLAUSES, "after earlier requests")
    off4 = len(trs)
    trs = trs + trs4
    for c, r in rows4:
        c["ti"] += off4
    rows = rows + rows4
    kinds = {}
    nontriv = unclaimed = 0
    for c, r in rows:
        if r.get("skipped"):
            continue
        has_help = any(t in ("-h", "--help") for t in c["argv"]) or c["kind"] == "version"
        k = c["kind"] + "/" + c["policy"]
        kinds[k] = kinds.get(k, 0) + 1
        if not has_help or c["kind"] == "noaction":
            continue
        if c["unclaimed"]:
            unclaimed += 1
            continue
        js = [j for j in T.judge(c, r) if j[0] in CLAUSES]
        if js and c.get("greedy"):
            continue
        if js:
            rep.violation(tc.describe(trs, c) + ": " + "; ".join(t for _, t in js), tc.replay_obj(trs, c))
        nontriv += 1
        if len(rep.cov["samples"]) < 6 and len(c["argv"]) >= 3 and rnd.random() < 0.004:
            rep.cov["samples"].append({"argv": c["argv"], "policy": c["policy"], "specification": c["kind"] + " at " + c["path"],
                                       "library": {"usage": r["usages"][:1], "descs": r["descs"][:1], "exits": r["exits"], "log": r["log"]}})
    rep.cov["outcome_kinds"] = kinds
    rep.cov["unclaimed"] = unclaimed
    rep.cov["distinct_nontrivial"] = nontriv
    rep.cov["exhaustive"] = True
    rep.cov["rule"] = ("5 command trees (one with a version flag) x 3 policies x every argument vector over %d tokens (sub command names, valid and invalid "
                       "arguments, --, -h, --help, the version flag) up to length %d: CmdTree.tla scans for the help token up to the first -- at every level and "
                       "says whose long help is shown (or that the token is data behind a -- of the same level, and then what runs or rejects); non-trivial = vectors "
                       "containing a help token or asking for the version; unclaimed = help below an ancestor whose own arguments contain --, version together "
                       "with help" % (len(alphabet), 3 if q else 4))
    rep.assumptions += ["long descriptions are markers (LONG:<path>), so 'the long help of the addressed command' is observable"]
    return rep.finish()


def replay(path, wd):
    return tc.replay(path, wd, CLAUSES)
