"""C05 - Before/Action/After run in nesting order; Afters always run; Exit comes last."""
import json, os, random, subprocess
from vlib import core

PROP = "C05"


def run(tier, wd):
    rep = core.Report(PROP, tier, "model_checking")
    binpath = core.build_harness()
    q = tier == "quick"
    res = core.run_tlc(wd, "Flow", cfg="Flow" if q else "FlowDeep", timeout=3000)
    core.tlc_must_finish(res, "Flow")
    rep.add_tlc(res)
    # the model of the repository's own test double (an exit stub that returns) must violate the property: that is why the
    # harness's stub does not return (DESIGN, C05)
    stub = core.run_tlc(os.path.join(wd), "Flow", cfg="FlowStub", timeout=600)
    if "C05" not in stub.violated:
        raise core.Broken("Flow.tla with ExiterReturns=TRUE should violate C05 (vacuity guard)")
    # (TLC evaluates Emit more than once per state when it also checks the liveness property: de-duplicate)
    cases = [json.loads(p) for p in sorted(set(res.printed("FLOW")))]
    maxd = 2 if q else 3
    expected = sum(3 * 4 ** (2 * d + 2) for d in range(maxd + 1))
    if len(cases) != expected:
        raise core.Broken("TLC emitted %d flows, expected %d" % (len(cases), expected))
    # deeper chains (depth 4..6): sampled outcome vectors, walked by TLC through the same machine
    rnd0 = random.Random(core.seed() + 17)
    vecs, seenv = [], set()
    while len(vecs) < (600 if q else 30000):
        d = rnd0.choice([4, 4, 5, 6])
        ks = [rnd0.choice(["absent", "returns", "returns", "panics", "exits"]) for _ in range(2 * d + 3)]
        if ks[d + 1] == "absent":
            ks[d + 1] = "returns"
        if (d, tuple(ks)) not in seenv:
            seenv.add((d, tuple(ks)))
            vecs.append({"depth": d, "kinds": ks})
    sub = os.path.join(wd, "deep")
    os.makedirs(sub, exist_ok=True)
    with open(os.path.join(sub, "flowvectors.json"), "w") as f:
        json.dump(vecs, f)
    resd = core.run_tlc(sub, "Flow", cfg="FlowFile", timeout=3000)
    core.tlc_must_finish(resd, "Flow on sampled deep vectors")
    rep.add_tlc(resd)
    deep = [json.loads(p) for p in sorted(set(resd.printed("FLOW")))]
    if len(deep) != len(vecs):
        raise core.Broken("TLC emitted %d deep flows, expected %d" % (len(deep), len(vecs)))
    cases += deep
    rep.cov["sampled_deep_vectors"] = len(deep)
    cases.sort(key=lambda c: (c["depth"], c["kinds"]))
    # every second vector is run on a chain whose levels also take their own options and arguments (the flows are wired while
    # descending through levels that validate tokens)
    for k, c in enumerate(cases):
        c["args"] = k % 2 == 1
    results = core.run_harness(binpath, "flow", [{"depth": c["depth"], "kinds": c["kinds"], "args": c["args"]} for c in cases], wd)
    nontriv = 0
    for c, r in zip(cases, results):
        rep.cov["evaluations"] += 1
        why = None
        if r.get("skipped"):
            continue
        if r.get("hang") or r.get("crash"):
            why = "hang/crash: %s" % r
        elif r["log"] != c["log"]:
            why = "hooks ran %s, specification says %s" % (r["log"], c["log"])
        elif r["fin"] != c["fin"] or r["by"] != c["by"]:
            why = "ended %s by %s, specification says %s by %s" % (r["fin"], r["by"] or "-", c["fin"], c["by"] or "-")
        elif r["exits"] != c["exits"]:
            why = "exit calls %s, specification says %s" % (r["exits"], c["exits"])
        elif r["fin"] == "panic" and not r["same"]:
            why = "the re-raised value is not the value the hook raised"
        elif r.get("err"):
            why = "Run returned an error on a valid invocation: %s" % r["err"]
        if why:
            rep.violation("depth=%d kinds=%s%s: %s" % (c["depth"], c["kinds"], " (levels with arguments)" if c["args"] else "", why), {"engine": "flow", "case": c, "observed": r})
        raised = sum(1 for k in c["kinds"] if k in ("panics", "exits"))
        if sum(1 for n in c["log"]) >= 2 and raised >= 1:
            nontriv += 1
        if raised >= 2 and len(rep.cov["samples"]) < 5 and c["depth"] == maxd and c["kinds"][0] == "returns" and c["kinds"][-1] == "exits":
            rep.cov["samples"].append({"case": {"depth": c["depth"], "kinds": c["kinds"]}, "specification": {k: c[k] for k in ("log", "fin", "by", "exits")}, "library": r})
    rep.cov["traces_validated_against_impl"] = len(cases)
    # real process exit (thorough: many; quick: a few)
    rnd = random.Random(core.seed())
    exiting = [c for c in cases if c["fin"] == "exited"]
    others = [c for c in cases if c["fin"] != "exited"]
    sample = rnd.sample(exiting, 12 if q else 120) + rnd.sample(others, 4 if q else 40)
    names = lambda d: ["B%d" % l for l in range(d + 1)] + ["ACT"] + ["A%d" % l for l in range(d, -1, -1)]
    for c in sample:
        p = subprocess.run([binpath, "flowexit", json.dumps({"depth": c["depth"], "kinds": c["kinds"]})], capture_output=True, text=True, timeout=60)
        rep.cov["evaluations"] += 1
        if c["fin"] == "exited":
            want = 10 + names(c["depth"]).index(c["by"])
            if want == 11:
                want = 0     # the hook with index 1 exits with status 0
            elif want == 12:
                want = 253   # the hook with index 2 exits with status -3
            elif want == 13:
                want = 300 % 256   # the hook with index 3 exits with status 300
            ok = p.returncode == want and "RETURNED" not in p.stdout
        elif c["fin"] == "panic":
            ok = p.returncode == 99 and ("PANIC " + c["by"]) in p.stdout
        else:
            ok = p.returncode == 0 and "RETURNED" in p.stdout
        if not ok:
            rep.violation("real process: depth=%d kinds=%s ended with status %d (%s), specification says %s by %s" % (
                c["depth"], c["kinds"], p.returncode, p.stdout.strip()[:80], c["fin"], c["by"]), {"engine": "flowexit", "case": c, "status": p.returncode})
    rep.cov["real_process_runs"] = len(sample)
    rep.cov["distinct_nontrivial"] = nontriv
    rep.cov["exhaustive"] = True
    rep.cov["rule"] = ("every depth 0..%d x every vector of {absent, returns, panics, exits} over the Befores, the Action (never absent) and the Afters "
                       "(TLC explores all of them on the step machine of Flow.tla and checks the closed-form property on each); each vector is replayed on the "
                       "library with an exit stub that does not return, plus a sample in a child process with the real os.Exit; non-trivial = at least one hook "
                       "raises and at least two hooks run; plus sampled vectors for depth 4..6 walked by TLC through the same machine" % maxd)
    rep.assumptions += ["the harness's exit stub panics with a sentinel instead of returning (a stub that returns makes the After chain run twice: "
                        "TLC shows this with ExiterReturns=TRUE); the real os.Exit is used in the child-process sample",
                        "panic values are distinct per hook and of three dynamic types (pointer, pointer implementing error, string); 'unchanged' is identity/equality with the raised value",
                        "an error returned by Run on a valid invocation is a violation (a raised value must be re-raised, not returned)"]
    return rep.finish()


def replay(path, wd):
    with open(path) as f:
        o = json.load(f)["replay"]
    binpath = core.build_harness()
    c = o["case"]
    r = core.run_harness(binpath, "flow", [{"depth": c["depth"], "kinds": c["kinds"], "args": c.get("args", False)}], wd, shards=1)[0]
    print("replay: depth=%d kinds=%s -> %s ; specification: %s" % (c["depth"], c["kinds"], json.dumps(r), json.dumps({k: c[k] for k in ("log", "fin", "by", "exits")})))
    bad = r.get("log") != c["log"] or r.get("fin") != c["fin"] or r.get("by") != c["by"] or r.get("exits") != c["exits"]
    return 1 if bad else 0
