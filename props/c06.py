"""C06 - value precedence: command line, then environment, then default."""
import random
from vlib import core, values as V
from props import valcommon as vc

PROP = "C06"


def run(tier, wd):
    rep = core.Report(PROP, tier, "model_checking")
    binpath = core.build_harness()
    rnd = random.Random(core.seed())
    q = tier == "quick"
    cases, abstracts = [], []
    n = 0
    for typ in V.BUILTIN:
        for role in ("opt", "arg"):
            for ptr in (False, True):
                for di, default in enumerate(V.DEFAULTS[typ][: 1 if q else 2]):
                    for envpat in V.env_patterns(2 if q else 3):
                        if V.base(typ) == "string" and "invalid" in envpat:
                            continue
                        for clipat in V.cli_patterns(2 if q else 3, False):
                            n += 1
                            c, a = V.concrete(typ, role, ptr, default, envpat, clipat, rnd, tag="_%d" % (n % 7))
                            cases.append(c)
                            abstracts.append(a)
    # the convenience methods (BoolOpt(name, value, desc), ...Ptr forms): default and command line only
    for typ in V.BUILTIN:
        for role in ("opt", "arg"):
            for ptr in (False, True):
                for default in V.DEFAULTS[typ]:
                    for clipat in V.cli_patterns(2, False):
                        n += 1
                        c, a = V.concrete(typ, role, ptr, default, (), clipat, rnd, tag="_%d" % (n % 7))
                        c["conv"] = True
                        cases.append(c)
                        abstracts.append(a)
    # two sub commands share one Go variable through the Ptr entry points (different defaults and environment lists): only the
    # declarations of the command that is addressed count, whichever was declared first
    nsib = 0
    for typ in V.BUILTIN:
        for role in ("opt", "arg"):
            for envpat in V.env_patterns(1 if q else 2):
                if V.base(typ) == "string" and "invalid" in envpat:
                    continue
                for clipat in V.cli_patterns(1, False):
                    for sib in (1, 2):
                        n += 1
                        nsib += 1
                        c, a = V.concrete(typ, role, True, V.DEFAULTS[typ][0], envpat, clipat, rnd, tag="_%d" % (n % 7))
                        c["siblings"] = sib
                        cases.append(c)
                        abstracts.append(a)
    rep.cov["shared_variable_cases"] = nsib
    # the option is a member of an option group and absent from the line, while an option declared after it (-x) is given, with and
    # without further arguments: default and environment stay as they are
    ngrp = 0
    for typ in V.BUILTIN:
        for di, default in enumerate(V.DEFAULTS[typ]):
            for envpat in V.env_patterns(1):
                if V.base(typ) == "string" and "invalid" in envpat:
                    continue
                for spec, argv in (("[OPTIONS]", ["-x"]), ("[-ox]", ["-x"]), ("[-xo]", ["-x"]), ("[OPTIONS]", [])):
                    n += 1
                    ngrp += 1
                    c, a = V.concrete(typ, "opt", n % 2 == 0, default, envpat, (), rnd, tag="_%d" % (n % 7))
                    c.update(spec=spec, argv=list(argv), extraflag=True)
                    cases.append(c)
                    abstracts.append(a)
    rep.cov["absent_group_member_cases"] = ngrp
    rows = vc.run_cases(rep, wd, binpath, cases, abstracts, "c06")
    nontriv = 0
    for case, a, clean, dev, r in rows:
        if r.get("skipped"):
            continue
        if r.get("hang") or r.get("crash"):
            rep.violation("%s: %s" % (vc.describe(case), r), {"engine": "values", "case": case, "expected": None})
            continue
        bad = vc.check_abstraction(case, a, r)
        if bad:
            raise core.Broken("case abstraction is wrong: " + bad)
        want = V.expected_value(case, clean, r)
        if len(case["envs"]) + len(case["cli"]) >= 2:
            nontriv += 1
        if len(rep.cov["samples"]) < 5 and len(case["envs"]) == 2 and len(case["cli"]) == 1 and case["type"] in ("ints", "float") and rnd.random() < 0.2:
            rep.cov["samples"].append({"case": vc.describe(case), "specification": want, "library": r["value"]})
        if r["ran"] and r["value"] == want and not r.get("err"):
            continue
        devwant = V.expected_value(case, dev, r)
        if r["ran"] and r["value"] == devwant and devwant != want:
            rep.known("Dev_EnvWipesDefault", vc.describe(case) + " -> %s (default lost)" % r["value"])
            continue
        rep.violation("%s: variable is %s (ran=%s err=%s), specification says %s" % (vc.describe(case), r["value"], r["ran"], r.get("err"), want),
                      {"engine": "values", "case": case, "expected": want, "expected_with_listed_deviation": devwant})
    vc.pair_part(rep, wd, binpath, rnd, "c06-pair", 1 if q else 6)
    rep.cov["distinct_nontrivial"] = nontriv
    rep.cov["exhaustive"] = True
    rep.cov["rule"] = ("7 built-in types x option/argument x plain/Ptr entry point (struct forms; plus the convenience methods without environment) x default(s) x every list of <= %d environment variables each unset, empty, "
                       "valid or invalid x 0..%d valid command-line values (each delivered in a random documented spelling); Values.tla runs its step machine on "
                       "every case and the clean machine is checked against the closed-form rule; non-trivial = at least two sources compete" % ((2, 2) if q else (3, 3)))
    rep.assumptions += ["validity of a token for a type is strconv's verdict, reported by the harness and cross-checked against the case's abstraction"]
    return rep.finish()


def replay(path, wd):
    return vc.replay_values(path, wd, lambda o, r: vc.pair_replay_bad(o, r) if "expected2" in o else not (r.get("ran") and r.get("value") == o["expected"]))
