"""C12 - an environment value can only satisfy an option, never restrict the command line."""
import random
from vlib import core, specgen as g, groups as G
from props import groupcommon as gc

PROP = "C12"


def want(e):
    return g.has(e, "opt") or g.has(e, "grp")


def run(tier, wd):
    rep = core.Report(PROP, tier, "model_checking")
    binpath = core.build_harness()
    rnd = random.Random(core.seed())
    p = g.STD_PROG
    keys = [g.opt_key(o["names"]) for o in p["opts"]]
    q = tier == "quick"
    core.replay_witnesses(rep, binpath, wd)
    specs = g.family(p, 30 if q else 300, core.seed(), want=want)
    for s in specs:
        s["hasend"] = g.has(s["ast"], "end")
    per_spec = 40 if q else 200
    groups, seen = [], set()
    for si, s in enumerate(specs):
        tries = n = 0
        used = sorted(set(k for nd in g.walk(s["ast"]) if nd["k"] in ("opt", "grp") for k in ([nd["a"]] if nd["k"] == "opt" else nd["xs"])))
        while n < per_spec and tries < per_spec * 6:
            tries += 1
            items = g.sample_items(p, s["ast"], rnd)
            if rnd.random() < 0.4:
                items = g.shuffle_runs(items, rnd)
            base = sorted(rnd.sample(keys, rnd.choice([0, 0, 1, 1, 2])))
            rest = [k for k in keys if k not in base]
            o = rnd.choice([k for k in rest if k in used] or rest)
            # options backed by the environment are often left out: the environment must then satisfy them
            for k in base + [o]:
                if rnd.random() < 0.5:
                    items = [it for it in items if not (it[0] == "occ" and it[1] == k)]
            if rnd.random() < 0.15:
                items = g.perturb(p, items, rnd)
            if len(items) > 7 or not g.marker_ok(items):
                continue
            line = G.random_line(p, items, rnd)
            key = (si, tuple(line), tuple(base), o)
            if key in seen:
                continue
            seen.add(key)
            n += 1
            groups.append({"rel": "envmono", "members": [{"si": si, "env": base, "argv": line},
                                                         {"si": si, "env": sorted(base + [o]), "argv": line}]})
    # systematically: every pair of options a spec uses, both backed by the environment and both left out of the command line
    # (several required options satisfied by their environment values at once)
    import itertools
    for si, s in enumerate(specs):
        used = sorted(set(k for nd in g.walk(s["ast"]) if nd["k"] in ("opt", "grp") for k in ([nd["a"]] if nd["k"] == "opt" else nd["xs"])))
        for k1, k2 in itertools.combinations(used, 2):
            for _ in range(2 if q else 4):
                items = [it for it in g.sample_items(p, s["ast"], rnd) if not (it[0] == "occ" and it[1] in (k1, k2))]
                if len(items) > 7 or not g.marker_ok(items):
                    continue
                line = G.random_line(p, items, rnd)
                for base, o in (([k1], k2), ([k2], k1)):
                    key = (si, tuple(line), tuple(base), o)
                    if key in seen:
                        continue
                    seen.add(key)
                    groups.append({"rel": "envmono", "members": [{"si": si, "env": base, "argv": line}, {"si": si, "env": sorted(base + [o]), "argv": line}]})
    # a spec-level -- as an alternative to (or next to) an option the environment backs, positionals that look like options behind it
    A_, O_, E_, X_, Y_ = g.Opt("-a"), g.Opt("-o"), g.Opt("-e"), g.Arg("X"), g.Arg("Y")
    for e_ in [g.Seq(g.Alt(E_, g.End()), X_, Y_), g.Seq(g.Optional(g.Alt(O_, g.End())), g.Rep(X_)), g.Seq(g.Alt(A_, g.End()), X_, g.Optional(Y_)),
               g.Seq(g.Optional(E_), g.Optional(g.End()), X_, Y_)]:
        st = g.render(p, e_)
        if st in [x["str"] for x in specs]:
            continue
        specs.append({"ast": e_, "str": st, "hasend": True})
        si = len(specs) - 1
        o = [nd["a"] for nd in g.walk(e_) if nd["k"] == "opt"][0]
        for line in (["p0", "-x"], ["p0", "-x", "q"], ["-x", "p0"], ["p0", "--", "-x"], ["p0"], ["p0", "p1"], ["-", "-x"], ["p0", "-a"]):
            for base in ([], ["-b"]):
                groups.append({"rel": "envmono", "members": [{"si": si, "env": base, "argv": line}, {"si": si, "env": sorted(base + [o]), "argv": line}]})
    # the built-in scalar types (BoolOpt, StringOpt) inside option groups, the backed option written up to four times
    pb = dict(p, builtin=True)
    B_ = g.Opt("-b")
    for e_ in [g.Seq(g.Optional(g.Grp(keys, all_=True)), g.Rep(g.Optional(X_))), g.Seq(g.Optional(g.Grp(["-a", "-o"])), g.Optional(X_)),
               g.Seq(g.Rep(g.Optional(g.Grp(["-a", "-b", "-e"]))), g.Optional(B_))]:
        specs.append({"ast": e_, "str": g.render(p, e_), "hasend": False, "prog": 1, "nooracle": True})
        si = len(specs) - 1
        used = sorted(set(k for nd in g.walk(e_) if nd["k"] == "grp" for k in nd["xs"]))
        for o in used:
            occs = [G.occ(o, None if g.is_flag(p, o) else v_) for v_ in ("v", "w2", "u", "v")]
            for n_ in (1, 2, 3, 4):
                for _ in range(3):
                    items = occs[:n_] + ([G.occ(rnd.choice([k for k in used if k != o]), None if g.is_flag(p, rnd.choice([k for k in used if k != o])) else "z")] if False else [])
                    line = G.random_line(p, items, rnd)
                    if rnd.random() < 0.5:
                        line = line + ["x"] if g.has(e_, "arg") else line
                    for base in ([], [k for k in used if k != o][:1]):
                        groups.append({"rel": "envmono", "members": [{"si": si, "env": base, "argv": line}, {"si": si, "env": sorted(base + [o]), "argv": line}]})
    triples = gc.run_groups(rep, wd, binpath, [p, pb], specs, groups, "envmono", law="monotone", only_opts=True)
    # every member is also compared with the reference under its own environment: "a required single option absent from the
    # command line is satisfied by its environment value" is a statement about each run, not about the pair
    extra = []
    for grp, pr, rs, v, classes in triples:
        if v == "ok":
            bad = [i for i, c in enumerate(classes) if c.startswith("violation") and not pr["preds"][i]["uncl"]
                   and not specs[grp["members"][i]["si"]].get("nooracle")]
            if bad:
                i = bad[0]
                v = "violation:with env %s %s -> %s" % (grp["members"][i]["env"], grp["members"][i]["argv"], classes[i])
        extra.append((grp, pr, rs, v, classes))
    gc.finish_groups(rep, [p, pb], specs, extra,
                     "a group = one spec x one command line (random sentence of the spec, often with one required option removed, shuffled, "
                     "sometimes perturbed) x a pair of environments E, E+{o} (TLC confirms they differ by exactly one option); accepted under E "
                     "must stay accepted under E+{o} with the same option values (--free specs), and each run must agree with the reference "
                     "under its own environment; non-trivial = the reference accepts under at least one of the two", check_oracle=True)
    rep.cov["specs"] = len(specs)
    rep.assumptions += ["standard program (see C01); every environment variable holds a valid value",
                        "cases whose verdict hinges on a group being satisfiable by the environment alone are unclaimed (DESIGN 3.6 iii)"]
    return rep.finish()


def replay(path, wd):
    return gc.rerun_replay(path, wd, law="monotone", only_opts=True)
