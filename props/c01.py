"""C01 - a command line is accepted iff it is a sentence of the spec's language."""
import collections, os, random
from vlib import core, specgen as g, refenum, structeq, harvest, groups as G
from props import refcommon as rc

PROP = "C01"


def is_violation(cls):
    return cls.startswith("violation:verdict") or cls.startswith("violation:hang") or cls.startswith("violation:crash") \
        or cls.startswith("violation:unexpected")


def run(tier, wd):
    rep = core.Report(PROP, tier, "model_checking")
    binpath = core.build_harness()
    seed = core.seed()
    if tier == "quick":
        plans = [("std", g.family(g.STD_PROG, 40, seed), ["x", "-", "--", "-a", "-ab", "-o", "-ov", "--out=w", "-e", "-z"], [[], ["-e"]], 3)]
    else:
        plans = [("std", g.family(g.STD_PROG, 300, seed, depth=3), ["x", "-", "--", "-a", "-b", "-ab", "-o", "-ov", "-o=v", "--out", "-eu", "-z", "--out="], [[], ["-e"], ["-a", "-o"]], 3),
                 ("long", g.family(g.STD_PROG, 60, seed + 1, depth=4), ["x", "--", "-ab", "-ov", "-o", "-e"], [[], ["-e"]], 5)]
    # (an option with an empty value, `--src=`, is malformed: not an occurrence)
    a2 = ["x", "--", "--verbose", "-q", "-qs", "-sv", "--src=v", "--source", "--src=", "-s", "--verbose=true", "-s="]
    plans.append(("prog2", g.family(g.PROG2, 6 if tier == "quick" else 80, seed + 2), a2[:9] if tier == "quick" else a2, [[], ["-s"]], 3))
    # option names with digits, dashes, underscores and capitals, written explicitly in the spec
    P3 = {"opts": [{"names": "3way", "flag": True}, {"names": "2fa x-9", "flag": False}, {"names": "K dry_run", "flag": True}], "args": ["X"]}
    W3, F2, KK, X3 = g.Opt("--3way"), g.Opt("--2fa"), g.Opt("-K"), g.Arg("X")
    specs3 = [{"ast": e_, "str": g.render(P3, e_)} for e_ in (g.Seq(g.Optional(W3), X3), g.Seq(F2, X3), g.Seq(g.Rep(g.Alt(W3, F2)), X3), g.Seq(g.Optional(KK), g.Optional(W3), g.Rep(X3)),
                                                             g.Seq(g.Optional(g.Grp(["--3way", "--2fa", "-K"], all_=True)), X3))]
    plans.append(("names", specs3, ["x", "--3way", "--2fa=v", "--x-9", "w", "-K", "--dry_run", "--dry-run", "-k", "--2fa"], [[]], 3))
    core.replay_witnesses(rep, binpath, wd)
    cnt = collections.Counter()
    nontrivial = set()
    for label, specs, alphabet, envsets, maxlen in plans:
        progs = [g.PROG2] if label == "prog2" else ([P3] if label == "names" else [g.STD_PROG])
        triples = rc.enumerate_and_run(rep, wd, binpath, specs, alphabet, envsets, maxlen, label, progs=progs)
        for c, r, cls in triples:
            key = cls if not cls.startswith("violation") else cls.split(" ")[0]
            cnt[key] += 1
            if cls.startswith("known:"):
                rep.known(cls[6:], rc.describe(specs, c))
            elif is_violation(cls):
                rep.violation(rc.describe(specs, c) + " -> " + cls, rc.replay_obj(specs, c, r, cls, progs[0]))
            if c["acc"] or not any(t in ("-z", "--zz") for t in c["argv"]):
                nontrivial.add((specs[c["si"]]["str"], tuple(c["env"]), tuple(c["argv"])))
            if c["acc"] and len(rep.cov["samples"]) < 6 and len(c["argv"]) >= 2:
                rep.cov["samples"].append({"spec": specs[c["si"]]["str"], "env": c["env"], "argv": c["argv"], "reference": "accepts", "library_ran": r.get("ran")})
        rep.cov["families_" + label] = {"specs": len(specs), "alphabet": alphabet, "envsets": envsets, "maxlen": maxlen}
    # structural part: the automaton the real parser compiled is language-equivalent to the spec's regular expression, for
    # label sequences of any length (binding C)
    big = g.family(g.STD_PROG, 1500 if tier == "quick" else 20000, seed + 11, depth=4)
    verdicts = structeq.check(rep, wd, binpath, [g.STD_PROG], big)
    sv = collections.Counter(v if isinstance(v, str) else v[0] for v in verdicts)
    for s_, v in zip(big, verdicts):
        if v == "equivalent" or v == "skipped":
            continue
        if isinstance(v, tuple):
            rep.violation("structural: the automaton compiled from %r is not equivalent to the spec's regular expression; distinguishing label path %s" % (s_["str"], v[1]),
                          {"engine": "structeq", "spec": s_["str"], "ast": s_["ast"], "path": v[1]})
        else:
            rep.violation("structural: compiling the well-formed spec %r: %s" % (s_["str"], v), {"engine": "structeq", "spec": s_["str"], "ast": s_["ast"], "path": v})
    # binding B on the repository's own tests: every level validated during `go test -tags verif` is a record
    # (spec, declarations, own tokens, verdict); TLC evaluates RefSemantics on each, StructEq first validates the AST read from the string
    sub = os.path.join(wd, "harvest")
    os.makedirs(sub, exist_ok=True)
    nev, recs, rc_ = harvest.record(sub)
    hprogs, hspecs, hgroups, hverdicts, hskipped = harvest.to_cases(recs)
    hv = structeq.check(rep, sub, binpath, hprogs, hspecs, label_="hstruct")
    usable = set(i for i, v in enumerate(hv) if v == "equivalent")
    for i, v in enumerate(hv):
        if v != "equivalent":
            rep.notes.append("harvested spec %r not used: %s" % (hspecs[i]["str"], v if isinstance(v, str) else "AST read from the string is not equivalent to the compiled automaton"))
    keep = [k for k, grp in enumerate(hgroups) if grp["members"][0]["si"] in usable]
    hres, hpreds = G.predict(sub, hprogs, hspecs, [hgroups[k] for k in keep])
    rep.add_tlc(hres)
    hcnt = collections.Counter()
    for k, pr in zip(keep, hpreds):
        pred, acc = pr["preds"][0], hverdicts[k]
        m = hgroups[k]["members"][0]
        rep.cov["evaluations"] += 1
        if acc == bool(pred["acc"]):
            hcnt["ok"] += 1
        elif pred["uncl"]:
            hcnt["unclaimed"] += 1
        elif pred["accG"] != pred["acc"] and acc == bool(pred["accG"]):
            hcnt["known:Dev_GreedyGroup"] += 1
            rep.known("Dev_GreedyGroup", "repository test: spec=%r argv=%s" % (hspecs[m["si"]]["str"], m["argv"]))
        else:
            hcnt["violation"] += 1
            rep.violation("repository test run: spec=%r env=%s argv=%s was %s, reference %s" % (hspecs[m["si"]]["str"], m["env"], m["argv"],
                          "accepted" if acc else "rejected", "accepts" if pred["acc"] else "rejects"),
                          {"engine": "harvest", "spec": hspecs[m["si"]]["str"], "prog": hprogs[hspecs[m["si"]]["prog"]], "env": m["env"], "argv": m["argv"]})
    rep.cov["harvest"] = {"events": nev, "records": len(recs), "specs": len(hspecs), "validated": dict(hcnt), "unparsable": len(hskipped)}
    rep.cov["traces_validated_against_impl"] += len(keep)
    rep.cov["structural_specs"] = dict(sv)
    rep.cov["evaluations"] += len(big)
    rep.cov["classes"] = dict(cnt)
    rep.cov["distinct_nontrivial"] = len(nontrivial)
    rep.cov["exhaustive"] = True
    rep.cov["rule"] = ("every spec of the family x every listed environment set x every argument vector over the alphabet up to maxlen "
                       "(TLC Init enumerates, RefSemantics predicts, the library executes each); non-trivial = accepted by the reference, "
                       "or rejected without containing an undeclared option token. Structural part: for 1500 (quick) / 20000 (thorough) further random specs "
                       "TLC explores the product of the subset constructions of the real compiled automaton and of the AST's automaton (equal acceptance in every "
                       "reachable pair = equal languages for inputs of any length). Harvest: every (spec, declarations, own tokens, verdict) record "
                       "of the repository's own test-suite run with the hooks on is validated by TLC against RefSemantics")
    rep.assumptions += ["standard program: flags -a/--aa, -b; valued -o/--out, -e; arguments X, Y; second program: --verbose, -s/--src/--source (valued), -q; SRC1, DST_2; "
                        "all declared with a recording value type",
                        "unclaimed cases (DESIGN 3.6) produce no verdict"]
    return rep.finish()


def replay(path, wd):
    import json
    with open(path) as f:
        o = json.load(f)["replay"]
    if o.get("engine") == "structeq":
        rep = core.Report(PROP, "quick", "model_checking")
        v = structeq.check(rep, wd, core.build_harness(), [g.STD_PROG], [{"ast": o["ast"], "str": o["spec"]}])[0]
        print("replay: %r -> %s" % (o["spec"], v))
        return 0 if v == "equivalent" else 1
    return rc.rerun_replay(path, wd, is_violation)
