"""Shared by C04 C07 C14 (engine CmdTree)."""
import json, os, random
from vlib import core, tree as T


def run_tree(rep, wd, binpath, alphabet, maxlen, policies, label, trees=None):
    trs = trees or T.trees()
    sub = os.path.join(wd, label)
    os.makedirs(sub, exist_ok=True)
    res, cases = T.predict(sub, trs, alphabet, maxlen, policies)
    rep.add_tlc(res)
    results = core.run_harness(binpath, "tree", [T.harness_case(trs[c["ti"]], c["policy"], c["argv"]) for c in cases], sub)
    rep.cov["evaluations"] += len(cases)
    rep.cov["traces_validated_against_impl"] += len(cases)
    return trs, list(zip(cases, results))


def add_tree(rep, wd, binpath, alphabet, policies, label, tree, trs, rows):
    """run one more tree (listed vectors) and append it; returns its rows"""
    trs_, rows_ = run_tree(rep, wd, binpath, alphabet, 1, policies, label, trees=[tree])
    off = len(trs)
    trs.extend(trs_)
    for c, r in rows_:
        c["ti"] += off
        c["root"] = tree.get("root", "app")
        if c["npolicy"] != T.effective_policy(tree, c["path"], c["policy"]):
            raise core.Broken("CmdTree.tla and vlib/tree.py disagree on the policy of %r" % c["path"])
    rows.extend(rows_)
    return rows_


def rerun(rep, wd, binpath, trs, rows_, pre_of, clauses, what):
    """the same cases on an application object that served other requests before (pre_of(case) = the earlier argument vectors)"""
    again = [(c, pre_of(c)) for c, r in rows_ if not r.get("skipped") and c["kind"] != "noaction" and not c.get("unclaimed")]
    again = [(c, pre) for c, pre in again if pre is not None]
    res = core.run_harness(binpath, "tree", [T.harness_case(trs[c["ti"]], c["policy"], c["argv"], pre) for c, pre in again], wd)
    for (c, pre), r in zip(again, res):
        rep.cov["evaluations"] += 1
        if r.get("skipped"):
            continue
        js = [j for j in T.judge(c, r) if j[0] in clauses]
        if js:
            o = replay_obj(trs, c)
            o["harness_case"] = T.harness_case(trs[c["ti"]], c["policy"], c["argv"], pre)
            rep.violation("%s %s: " % (what, pre) + describe(trs, c) + ": " + "; ".join(t for _, t in js), o)
    return len(again)


def describe(trs, c):
    return "tree %d policy=%s argv=%s (specification: %s at %r)" % (c["ti"], c["policy"], c["argv"], c["kind"], c["path"])


def replay_obj(trs, c):
    c2 = dict(c)
    c2["levels"] = [{"path": lv["path"], "acc": sorted([sorted([k, list(v)] for k, v in m) for m in lv["acc"]])} for lv in c["levels"]]
    return {"engine": "tree", "case": c2, "harness_case": T.harness_case(trs[c["ti"]], c["policy"], c["argv"])}


def replay(path, wd, clauses):
    with open(path) as f:
        o = json.load(f)["replay"]
    binpath = core.build_harness()
    r = core.run_harness(binpath, "tree", [o["harness_case"]], wd, shards=1)[0]
    c = o["case"]
    for lv in c["levels"]:
        lv["acc"] = set(frozenset((k, tuple(v)) for k, v in m) for m in lv["acc"])
    js = [j for j in T.judge(c, r) if j[0] in clauses]
    print("replay: argv=%s policy=%s -> %s" % (c["argv"], c["policy"], json.dumps(r)))
    for j in js:
        print("replay: %s: %s" % j)
    return 1 if js else 0
