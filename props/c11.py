"""C11 - adjacent occurrences of different options commute."""
import random
from vlib import core, specgen as g, groups as G
from props import groupcommon as gc
from props.c10 import want

PROP = "C11"


def plain(p, it, rnd):
    """one spelling of an occurrence, as tokens"""
    return rnd.choice(G.occ_spellings(p, it))[0]


def render(p, items, choice):
    out = []
    for it, c in zip(items, choice):
        if it[0] == "pos":
            out.append(it[1])
        elif it[0] == "marker":
            out.append("--")
        else:
            out += c
    return out


def run(tier, wd):
    rep = core.Report(PROP, tier, "model_checking")
    binpath = core.build_harness()
    rnd = random.Random(core.seed())
    p = g.STD_PROG
    specs = g.family(p, 25 if tier == "quick" else 250, core.seed(), want=want)
    per_spec = 40 if tier == "quick" else 250
    # alternatives that join on a repetition or on further options: the search has to come back to the same state with different
    # remaining arguments of the same length (valued options are then often spelled as two tokens throughout)
    A_, B_, O_, E_ = g.Opt("-a"), g.Opt("-b"), g.Opt("-o"), g.Opt("-e")
    for e_ in [g.Seq(g.Alt(E_, O_), g.Rep(g.Optional(E_))), g.Seq(g.Alt(B_, A_), O_, g.Rep(B_)), g.Seq(g.Alt(A_, B_), E_, g.Optional(A_), g.Optional(O_)),
               g.Seq(g.Alt(O_, E_), g.Rep(g.Optional(g.Alt(O_, E_)))),
               # a required option written first, optional ones behind it: its matcher has to step over whatever stands in front
               g.Seq(B_, g.Optional(A_), g.Optional(O_)), g.Seq(E_, g.Optional(B_), g.Optional(A_), g.Optional(O_)), g.Seq(O_, g.Rep(g.Optional(A_)), g.Optional(E_))]:
        st = g.render(p, e_)
        if st not in [x["str"] for x in specs]:
            specs.append({"ast": e_, "str": st, "extra": True})
    groups, seen = [], set()
    for si, s in enumerate(specs):
        tries = 0
        n = 0
        while n < (per_spec * 3 if s.get("extra") else per_spec) and tries < per_spec * 24:
            tries += 1
            items = g.sample_items(p, s["ast"], rnd)
            if s.get("extra") and rnd.random() < 0.5:
                # more occurrences of the repeated options
                k = rnd.choice([it for it in items if it[0] == "occ"])
                items = items + [(k[0], k[1], rnd.choice(["1", "2", "3", "v"]) if k[2] is not None else None) for _ in range(rnd.randint(1, 2))]
            if rnd.random() < 0.5:
                items = g.shuffle_runs(items, rnd)
            if rnd.random() < 0.2:
                items = g.perturb(p, items, rnd)
            if len(items) > 7 or not g.marker_ok(items):
                continue
            sw = G.swaps(items)
            if not sw:
                continue
            i = rnd.choice(sw)
            swapped = list(items)
            swapped[i], swapped[i + 1] = swapped[i + 1], swapped[i]
            # same spelling of every occurrence on both sides; sometimes the swapped pair shares a folded token
            sep = s.get("extra") and rnd.random() < 0.6
            choice = [(([g.names_of(p, it[1])[0], it[2]] if it[2] is not None else [g.names_of(p, it[1])[0]]) if sep else plain(p, it, rnd)) if it[0] == "occ" else None for it in items]
            a = render(p, items, choice)
            ch2 = list(choice)
            ch2[i], ch2[i + 1] = ch2[i + 1], ch2[i]
            b = render(p, swapped, ch2)
            if rnd.random() < 0.4 and not sep:
                fa = [l for l in G.spellings(p, items[i:i + 2], cap=8, rnd=rnd)]
                fb = [l for l in G.spellings(p, swapped[i:i + 2], cap=8, rnd=rnd)]
                pre = render(p, items[:i], choice[:i])
                post = render(p, items[i + 2:], choice[i + 2:])
                a = pre + rnd.choice(fa) + post
                b = pre + rnd.choice(fb) + post
            if not sep and rnd.random() < 0.35:
                # both lines with the same spelling of every occurrence, plain short forms folded wherever they happen to be adjacent
                # (a folded group that ends in a valued option with its value in the next token, stepped over as a whole, ...)
                full = [(rnd.choice([x for x in G.occ_spellings(p, it) if x[1] is not None] or G.occ_spellings(p, it)) if it[0] == "occ"
                         else ([it[1]] if it[0] == "pos" else ["--"], None)) for it in items]
                fullb = list(full)
                fullb[i], fullb[i + 1] = fullb[i + 1], fullb[i]
                a = rnd.choice(list(G.foldings(full)))
                b = rnd.choice(list(G.foldings(fullb)))
            key = (si, tuple(a), tuple(b))
            if key in seen or a == b:
                continue
            seen.add(key)
            n += 1
            env = sorted(rnd.sample(["-a", "-b", "-o", "-e"], rnd.choice([1, 2]))) if rnd.random() < 0.25 else []
            groups.append({"rel": "swap", "members": [{"si": si, "env": env, "argv": a}, {"si": si, "env": env, "argv": b}]})
            if rnd.random() < 0.15:
                # the last two tokens are a valued option WITHOUT its value and a one-token occurrence of another option, in both
                # orders (the reference rejects both: no value, or a value that starts with a dash); the valued option is
                # often backed by the environment
                valued = [k for k in [g.opt_key(o["names"]) for o in p["opts"]] if not g.is_flag(p, k)]
                vk = rnd.choice(valued)
                bare = rnd.choice(g.names_of(p, vk))
                others = [k for k in [g.opt_key(o["names"]) for o in p["opts"]] if k != vk]
                ok = rnd.choice(others)
                oc = G.occ(ok, None if g.is_flag(p, ok) else "v")
                one = rnd.choice([t for t, _ in G.occ_spellings(p, oc) if len(t) == 1])
                env2 = sorted(set(env) | ({vk} if rnd.random() < 0.7 else set()))
                groups.append({"rel": "tokswap", "members": [{"si": si, "env": env2, "argv": a + one + [bare]},
                                                              {"si": si, "env": env2, "argv": a + [bare] + one}]})
    triples = gc.run_groups(rep, wd, binpath, [p], specs, groups, "swap")
    gc.finish_groups(rep, [p], specs, triples,
                     "a group = one --free spec x a command line (random sentence of the spec, runs of occurrences shuffled, sometimes perturbed) "
                     "x the same line with two adjacent occurrences of different options transposed (TLC confirms the item readings differ by exactly "
                     "that transposition); spellings are random, in 40% of the groups the pair is re-spelled/folded too; 15% extra groups end in a valued "
                     "option without value next to a one-token occurrence of another option, in both orders; non-trivial = the reference accepts")
    # the same law one level up: two occurrences in front of a sub command name, in both orders (CmdTree.tla says what runs and what
    # every level binds; the two orders must agree with it and so with each other)
    from vlib import tree as T
    from props import treecommon as tc
    st = T.swap_tree()
    trs_t, rows_t = tc.run_tree(rep, wd, binpath, ["x"], 1, ["continue"], "c11-tree", trees=[st])
    for c, r in rows_t:
        if r.get("skipped"):
            continue
        js = [j for j in T.judge(c, r) if j[0] in ("routing", "bindings")]
        if js and not c.get("greedy"):
            rep.violation(tc.describe(trs_t, c) + ": " + "; ".join(t for _, t in js), tc.replay_obj(trs_t, c))
    rep.cov["command_tree_vectors"] = len(rows_t)
    rep.cov["specs"] = len(specs)
    rep.assumptions += ["standard program (see C01)", "specs without a spec-level --"]
    return rep.finish()


def replay(path, wd):
    import json
    with open(path) as f:
        if json.load(f)["replay"].get("engine") == "tree":
            from props import treecommon as tc
            return tc.replay(path, wd, ("routing", "bindings"))
    return gc.rerun_replay(path, wd)
