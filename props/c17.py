"""C17 - help text lists exactly what was declared."""
import json, os, random, re
from vlib import core

PROP = "C17"
WORDS = ["copy", "the file", "50% done", "use --force", "path/to", "a (b)", "x", "verbose mode", "%s %d", "~", "naive"]
TYPES = ["bool", "string", "int", "float", "strings", "ints", "floats"]


def go_default(typ, d):
    """the default as the value type prints it at declaration ('' = not shown)"""
    if typ == "bool":
        return "true" if d else ""
    if typ == "string":
        return '"%s"' % d if d else ""
    if typ == "int":
        return str(d)
    if typ == "float":
        s = repr(float(d))
        return s[:-2] if s.endswith(".0") else s
    if typ == "strings":
        return "[" + ", ".join('"%s"' % x for x in d) + "]" if d else ""
    if typ == "ints":
        return "[" + ", ".join(str(x) for x in d) + "]" if d else ""
    if typ == "floats":
        return "[" + ", ".join(go_default("float", x) for x in d) + "]" if d else ""
    raise ValueError(typ)


def rand_default(rnd, typ):
    return {"bool": lambda: rnd.choice([False, True]), "string": lambda: rnd.choice(["", "dflt", "a b", "x=1"]),
            "int": lambda: rnd.choice([0, 5, -3]), "float": lambda: rnd.choice([0, 1.5, -0.25, 2]),
            "strings": lambda: rnd.choice([[], ["a"], ["a", "b c"]]), "ints": lambda: rnd.choice([[], [1, 2], [7]]),
            "floats": lambda: rnd.choice([[], [0.5, 2]])}[typ]()


def rand_desc(rnd, multiline=True):
    n = rnd.choice([0, 1, 1, 1, 2, 3]) if multiline else rnd.choice([0, 1, 1])
    lines = []
    for i in range(n):
        l = " ".join(rnd.choice(WORDS) for _ in range(rnd.randint(1, 3)))
        if rnd.random() < 0.08:
            # a long line, sometimes one unbroken run of more than 80 characters (a URL, a path)
            l = rnd.choice(["https://example.org/" + "a-very-long-path-segment/" * 5 + "end", " ".join(rnd.choice(WORDS) for _ in range(30))])
        if i > 0 and rnd.random() < 0.4:
            l = "  " + l            # inner lines are trimmed by the row printer
        if i < n - 1 and rnd.random() < 0.3:
            l = l + " "
        lines.append(l)
    return "\n".join(lines)


def rand_names(rnd, used):
    shorts = [c for c in "abcdefgkmnpqrstuwxyz" if "-" + c not in used]
    longs = [w for w in ["force", "out", "level", "dry-run", "x1", "recursive", "tag", "host"] if "--" + w not in used]
    k = rnd.choice(["s", "l", "sl", "ls", "ssl", "lls", "sls"])
    names = []
    for ch in k:
        if ch == "s" and shorts:
            n = shorts.pop(rnd.randrange(len(shorts)))
            names.append(n)
            used.add("-" + n)
        elif ch == "l" and longs:
            n = longs.pop(rnd.randrange(len(longs)))
            names.append(n)
            used.add("--" + n)
    return names


def rand_param(rnd, opt, used, argnames):
    typ = rnd.choice(TYPES)
    if opt:
        names = " ".join(rand_names(rnd, used))
        if not names:
            return None
    else:
        names = argnames.pop(0)
    # names that are prefixes of one another, up to four entries, sometimes one of them twice
    env = " ".join(rnd.sample(["VERIF_H1", "VERIF_H2", "VERIF_H3", "VERIF_H", "VERIF_H10", "VERIF"], rnd.choice([0, 0, 1, 2, 2, 3, 4])))
    if env and rnd.random() < 0.1:
        env = env + " " + env.split(" ")[0]
    if env and rnd.random() < 0.2:
        env = " " + env.replace(" ", "  ") + " "
    return {"names": names, "type": typ, "default": rand_default(rnd, typ), "env": env, "hide": rnd.random() < 0.2, "desc": rand_desc(rnd)}


def rand_tree(rnd, depth):
    nodes = []

    def mk(names, d):
        idx = len(nodes)
        used = set()
        n = {"names": names, "desc": "\n".join(x.lstrip() if k else x for k, x in enumerate(rand_desc(rnd, rnd.random() < 0.3).split("\n"))), "longdesc": rnd.choice(["", "", rand_desc(rnd)]), "hidden": False,
             "spec": "", "opts": [], "args": [], "subs": []}
        nodes.append(n)
        for _ in range(rnd.choice([0, 1, 2, 3])):
            p = rand_param(rnd, True, used, None)
            if p:
                n["opts"].append(p)
        argnames = ["SRC", "DST", "X1_"]
        for _ in range(rnd.choice([0, 0, 1, 2])):
            n["args"].append(rand_param(rnd, False, used, argnames))
        if rnd.random() < 0.3:
            # an explicit spec (any well-formed spec over the declarations)
            parts = ["[" + ("-" if len(o["names"].split()[0]) == 1 else "--") + o["names"].split()[0] + "]" for o in n["opts"]] + [a["names"] for a in n["args"]]
            n["spec"] = " ".join(parts)
            if rnd.random() < 0.5 and n["spec"]:
                n["spec"] = " " + n["spec"] + "  "
        if d > 0:
            pool = [["get", "g"], ["put"], ["list", "ls", "l"], ["rm", "remove"]]
            rnd.shuffle(pool)
            for al in pool[: rnd.choice([0, 1, 2, 3])]:
                ci = mk(al, d - 1)
                nodes[ci]["hidden"] = rnd.random() < 0.25
                n["subs"].append(ci)
        return idx
    # the application's name may be a path or contain blanks
    mk([rnd.choice(["app", "app", "app", "my tool", "/opt/My Tools/bin/tool", "./a.out"])], depth)
    return nodes


def abstract_decl(nodes, target):
    n = nodes[target[-1]]
    path = " ".join(nodes[i]["names"][0] for i in target)
    spec = n["spec"].strip()
    if not spec:
        spec = (("[OPTIONS] " if n["opts"] else "") + "".join(a["names"] + " " for a in n["args"])).strip()

    def lines(d):
        if not d.strip():
            return []
        return [l.strip() for l in d.split("\n")]

    def param(p, opt):
        names = [("-" if len(x) == 1 else "--") + x for x in p["names"].split()] if opt else None
        o = {"desc": lines(p["desc"]), "env": p["env"].split(), "def": go_default(p["type"], p["default"]), "hide": p["hide"]}
        if opt:
            o["names"] = names
        else:
            o["name"] = p["names"]
        return o
    return {"path": path, "spec": spec, "hassubs": len(n["subs"]) > 0,
            "desc": n["desc"].split("\n") if n["desc"] else [], "longdesc": n["longdesc"].split("\n") if n["longdesc"] else [],
            "args": [param(a, False) for a in n["args"]], "opts": [param(o, True) for o in n["opts"]],
            "cmds": [{"aliases": nodes[i]["names"], "desc": nodes[i]["desc"], "hidden": nodes[i]["hidden"]} for i in n["subs"]]}


def parse_help(text):
    """the library's output -> abstract document (list of {k,a,b}); None if the layout is not the expected one"""
    lines = text.split("\n")
    while lines and lines[0] == "":
        lines.pop(0)
    if not lines or not lines[0].startswith("Usage: "):
        return None
    doc = [{"k": "usage", "a": lines[0][len("Usage: "):], "b": ""}]
    rest = lines[1:]
    # the column block starts at the first section header; the line before it is a blank cell line
    hdr = [i for i, l in enumerate(rest) if l.rstrip() in ("Arguments:", "Options:", "Commands:") and l.startswith(l.rstrip())]
    first = hdr[0] if hdr else len(rest)
    desc_lines = rest[: max(first - 1, 0)] if hdr else rest
    while desc_lines and desc_lines[0].strip() == "":
        desc_lines.pop(0)
    while desc_lines and desc_lines[-1].strip() == "":
        desc_lines.pop()
    if desc_lines:
        doc.append({"k": "desc", "a": "\n".join(desc_lines), "b": ""})
    if not hdr:
        return doc
    W = len(rest[first])
    sec = ""
    for l in rest[first:]:
        if l.strip() == "":
            continue
        if l.rstrip() in ("Arguments:", "Options:", "Commands:"):
            sec = l.rstrip()
            doc.append({"k": "section", "a": l.rstrip(), "b": ""})
        elif l.startswith("Run '") and l.endswith(" COMMAND --help' for more information on a command."):
            doc.append({"k": "footer", "a": l[len("Run '"):-len(" COMMAND --help' for more information on a command.")], "b": ""})
        elif l.startswith("  ") and sec == "Commands:":
            # (a multi-line description ends the column block: the rows behind it are aligned on their own, so the column is found
            # by the gap of at least three blanks behind the alias list, not by the width of the first block)
            m = re.match(r"^  (.*?\S) {3,}(\S.*)$", l)
            if m:
                doc.append({"k": "row", "a": m.group(1), "b": m.group(2)})
            else:
                doc.append({"k": "row", "a": l.strip(), "b": ""})
        elif l.startswith("  "):
            doc.append({"k": "row", "a": l[2:W].rstrip(), "b": l[W:]})
        elif sec == "Commands:" and doc and doc[-1]["k"] == "row":
            # the further lines of a sub command's description are printed as they are, outside the column
            doc[-1]["b"] += "\n" + l
        else:
            doc.append({"k": "junk", "a": l, "b": ""})
    return doc


def run(tier, wd):
    rep = core.Report(PROP, tier, "exploration")
    binpath = core.build_harness()
    rnd = random.Random(core.seed())
    q = tier == "quick"
    cases, decls = [], []
    for _ in range(120 if q else 8000):
        nodes = rand_tree(rnd, rnd.choice([0, 1, 2, 3]))
        # every command of the tree, short and long help, via the method and via --help; sometimes with the environment set
        paths = [[0]]

        def walk(p):
            for s in nodes[p[-1]]["subs"]:
                paths.append(p + [s])
                walk(p + [s])
        walk([0])
        for target in paths:
            # the second of two help requests on the same command object: only where the listed sub commands declare nothing (printing a
            # help initialises every listed sub command again, and a second declaration of an option panics)
            twice = [(False, "method2")] if nodes[target[-1]]["subs"] and all(not nodes[s_]["opts"] and not nodes[s_]["args"] for s_ in nodes[target[-1]]["subs"]) else []
            for long_, via in [(False, "method"), (True, "method"), (True, "flag")] + twice:
                if via == "flag" and rnd.random() < 0.5:
                    continue
                setenv = {"VERIF_H1": rnd.choice(["9", "true", "zz"])} if rnd.random() < 0.3 else {}
                cases.append({"nodes": nodes, "target": target, "long": long_, "via": via, "setenv": setenv})
                decls.append(abstract_decl(nodes, target))
    # trees whose sub commands declare nothing, hidden ones anywhere among them: both help forms, twice
    for _ in range(40 if q else 1500):
        nodes = rand_tree(rnd, 1)
        for s_ in nodes[0]["subs"]:
            nodes[s_]["opts"], nodes[s_]["args"], nodes[s_]["spec"] = [], [], ""
        if not nodes[0]["subs"]:
            continue
        for long_ in (False, True):
            cases.append({"nodes": nodes, "target": [0], "long": long_, "via": "method2", "setenv": {}})
            decls.append(abstract_decl(nodes, [0]))
    results = core.run_harness(binpath, "help", cases, wd)
    records, shortnames = [], set()
    unparsed = []
    for c, d, r in zip(cases, decls, results):
        if r.get("skipped"):
            continue
        if r.get("hang") or r.get("crash") or r.get("panic"):
            rep.violation("printing help of %r: %s" % (d["path"], {k: r.get(k) for k in ("hang", "crash", "panic")}), {"engine": "help", "case": c})
            continue
        doc = parse_help(r["text"])
        if doc is None:
            unparsed.append((c, d, r))
            doc = [{"k": "junk", "a": r["text"][:200], "b": ""}]
        for o in d["opts"]:
            for n in o["names"]:
                if len(n) == 2:
                    shortnames.add(n)
        records.append((c, d, r, doc))
    with open(os.path.join(wd, "helpcases.json"), "w") as f:
        json.dump({"cases": [{"decl": d, "long": c["long"], "doc": doc} for c, d, r, doc in records], "shortnames": sorted(shortnames)}, f)
    res = core.run_tlc(wd, "Help", timeout=3000)
    core.tlc_must_finish(res, "Help")
    rep.add_tlc(res)
    verdicts = {}
    for p in set(res.printed("HELP")):
        o = json.loads(p)
        verdicts[o["ci"]] = o
    if len(verdicts) != len(records):
        raise core.Broken("Help.tla judged %d of %d records" % (len(verdicts), len(records)))
    nontriv = set()
    rows_compared = 0
    for i, (c, d, r, doc) in enumerate(records):
        rep.cov["evaluations"] += 1
        v = verdicts[i]
        rows_compared += sum(1 for e in doc if e["k"] == "row")
        if not v["ok"]:
            want = v["want"]
            diff = next(((a, b) for a, b in zip(want, doc) if a != b), (want[len(doc)] if len(want) > len(doc) else None, doc[len(want)] if len(doc) > len(want) else None))
            rep.violation("help of %r (%s, %s): first difference: declared %s, printed %s" % (d["path"], "long" if c["long"] else "short", c["via"], diff[0], diff[1]),
                          {"engine": "help", "case": c, "decl": d, "want": want})
        key = json.dumps(d, sort_keys=True) + str(c["long"])
        if d["args"] or d["opts"] or d["cmds"]:
            nontriv.add(key)
        if len(rep.cov["samples"]) < 3 and len(d["opts"]) >= 2 and d["cmds"] and rnd.random() < 0.05:
            rep.cov["samples"].append({"declaration": d, "document": doc})
    rep.cov["traces_validated_against_impl"] = len(records)
    rep.cov["rows_compared"] = rows_compared
    rep.cov["distinct_nontrivial"] = len(nontriv)
    rep.cov["rule"] = ("random command trees (depth <= 3; options with 1-3 short/long names in any order, arguments, all seven types with empty and non-empty "
                       "defaults, HideValue, environment lists with odd spacing, multi-line descriptions with inner blanks and % characters, LongDesc, hidden "
                       "sub commands, aliases, explicit or synthesised spec) x every command of the tree x short/long help x PrintHelp/PrintLongHelp or --help, "
                       "sometimes with the environment variables set; the printed text is parsed back into (usage, description, section, row, footer) entries and TLC "
                       "checks it equal to Help.tla's document for the declaration; distinct = different (declaration, long) pairs with at least one row")
    rep.assumptions += ["information content and order only: column alignment (tabwriter) is not modelled (DESIGN section 7)",
                        "descriptions carry no trailing blanks at their very end; sub command descriptions are single-line"]
    return rep.finish()


def replay(path, wd):
    with open(path) as f:
        o = json.load(f)["replay"]
    binpath = core.build_harness()
    r = core.run_harness(binpath, "help", [o["case"]], wd, shards=1)[0]
    doc = parse_help(r.get("text", "")) if not r.get("panic") else None
    print("replay: printed\n%s" % r.get("text"))
    bad = doc != o.get("want")
    print("replay: document %s the declaration's" % ("DIFFERS from" if bad else "equals"))
    return 1 if bad else 0
