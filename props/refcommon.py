"""Shared by the checks that are decided through the RefEnum engine (C01, C02, C15 ...)."""
import json, os, collections
from vlib import core, specgen as g, refenum

ALPHA_FULL = ["x", "y", "-", "--", "-a", "-b", "-ab", "-ba", "--aa", "-o", "-ov", "-o=v", "--out", "--out=w",
              "-aov", "-bo", "-e", "-eu", "-abe", "-a=true", "-z", "--zz", "v"]


def enumerate_and_run(rep, wd, binpath, specs, alphabet, envsets, maxlen, label, progs=None, cfg=None):
    """TLC predicts, the library executes; returns list of (case, result, class)"""
    progs = progs or [g.STD_PROG]
    sub = os.path.join(wd, label)
    os.makedirs(sub, exist_ok=True)
    fam = refenum.make_family(progs, specs, alphabet, envsets, maxlen)
    res, cases = refenum.predict(sub, fam, cfg=cfg, timeout=4 * 3600)
    rep.add_tlc(res)
    expected = len(specs) * len(envsets) * sum(len(alphabet) ** k for k in range(maxlen + 1))
    if len(cases) != expected:
        raise core.Broken("TLC emitted %d cases, family has %d" % (len(cases), expected))
    results = refenum.exec_cases(binpath, sub, progs, specs, cases)
    out = []
    for c, r in zip(cases, results):
        out.append((c, r, refenum.classify(c, r)))
    rep.cov["traces_validated_against_impl"] += len(cases)
    rep.cov["evaluations"] += len(cases)
    return out


def describe(specs, c):
    return "spec=%r env=%s argv=%s" % (specs[c["si"]]["str"], c["env"], c["argv"])


def replay_obj(specs, c, r, why, prog=None):
    return {"engine": "refenum", "spec": specs[c["si"]]["str"], "ast": specs[c["si"]]["ast"], "prog": prog or g.STD_PROG, "env": c["env"],
            "argv": c["argv"], "reference_accepts": sorted([sorted([k, list(v)] for k, v in m) for m in c["acc"]]),
            "observed": {k: r.get(k) for k in ("ran", "err", "panic", "log", "hang", "crash", "sbu") if k in r}, "why": why}


def rerun_replay(path, wd, judge):
    """--replay: run the recorded case on the real library alone and judge it against the recorded prediction"""
    with open(path) as f:
        o = json.load(f)["replay"]
    binpath = core.build_harness()
    pf = os.path.join(wd, "progs.json")
    with open(pf, "w") as f:
        json.dump([o["prog"]], f)
    rs = core.run_harness(binpath, "exec", [{"id": 0, "prog": 0, "spec": o["spec"], "env": o["env"], "argv": o["argv"]}],
                          wd, env={"HARNESS_PROGS": pf}, shards=1)
    acc = set(frozenset((k, tuple(v)) for k, v in m) for m in o["reference_accepts"])
    case = {"acc": acc, "accG": acc, "uncl": False}
    cls = refenum.classify(case, rs[0])
    print("replay: spec=%r env=%s argv=%s -> library %s; class %s" % (o["spec"], o["env"], o["argv"], json.dumps(rs[0]), cls))
    return 1 if judge(cls) else 0
