"""C10 - all documented spellings of an option occurrence are interchangeable."""
import itertools, random
from vlib import core, specgen as g, groups as G
from props import groupcommon as gc

PROP = "C10"
KEYS = ["-a", "-b", "-o", "-e"]


def want(e):
    # --free specs: after a spec-level -- the tokens are positionals, not option occurrences
    return (g.has(e, "opt") or g.has(e, "grp")) and not g.has(e, "end")


def run(tier, wd):
    rep = core.Report(PROP, tier, "model_checking")
    binpath = core.build_harness()
    rnd = random.Random(core.seed())
    p = g.STD_PROG
    if tier == "quick":
        specs = g.family(p, 20, core.seed(), want=want)
        per_spec, cap = 30, 14
    else:
        specs = g.family(p, 120, core.seed(), want=want)
        per_spec, cap = 60, 20
    groups = []
    classes = {}
    nseq = 0
    for si, s in enumerate(specs):
        seen = set()
        tries = 0
        while len(seen) < per_spec and tries < per_spec * 6:
            tries += 1
            raw = rnd.random() < 0.15
            # 15% of the classes: values with a byte that is not valid UTF-8 (written ~ here and inside TLC)
            dashy = not raw and rnd.random() < 0.15
            # 15% of the classes: values that start with a dash (a negative number, a lone dash): attached and = spellings only
            items = g.sample_items(p, s["ast"], rnd, vals=("c~f", "~", "v~")) if raw else \
                (g.sample_items(p, s["ast"], rnd, vals=("-5", "-", "-x")) if dashy else g.sample_items(p, s["ast"], rnd))
            if rnd.random() < 0.5:
                items = g.shuffle_runs(items, rnd)
            if rnd.random() < 0.25:
                items = g.perturb(p, items, rnd)
            key = tuple(items)
            if key in seen or len(items) > 6 or not g.marker_ok(items) or not any(i[0] == "occ" for i in items):
                continue
            seen.add(key)
            if key not in classes:
                classes[key] = G.spellings(p, items, cap=cap, rnd=rnd)
            lines = classes[key]
            if len(lines) < 2:
                continue
            nseq += 1
            # a quarter of the classes with one or two options backed by the environment (the same for every member)
            env = sorted(rnd.sample(KEYS, rnd.choice([1, 2]))) if rnd.random() < 0.25 else []
            groups.append({"rel": "respell", "members": [dict({"si": si, "env": env, "argv": l}, **({"rawbyte": True} if raw else {})) for l in lines]})
    # item sequences the reference REJECTS, around an option group with an environment-backed member that is absent from the line: a
    # folded token of which the group consumes only a part must not look different to the branches tried afterwards
    A_, B_, O_, E_, X_, Y_ = g.Opt("-a"), g.Opt("-b"), g.Opt("-o"), g.Opt("-e"), g.Arg("X"), g.Arg("Y")
    for e_, seqs in [(g.Seq(g.Optional(X_), g.Optional(g.Grp(["-a", "-b"])), Y_, g.Optional(O_)),
                      [[G.pos("x"), G.occ("-b"), G.occ("-o", "v")], [G.pos("x"), G.pos("y"), G.occ("-b"), G.occ("-o", "v")], [G.occ("-b"), G.occ("-o", "v"), G.pos("x")]]),
                     (g.Seq(g.Optional(X_), g.Optional(g.Grp(["-a", "-b", "-e"])), Y_, g.Optional(g.Grp(["-b", "-o"]))),
                      [[G.pos("x"), G.occ("-b"), G.occ("-b"), G.occ("-o", "v")], [G.pos("x"), G.occ("-e", "u"), G.occ("-b"), G.occ("-o", "v")]]),
                     (g.Alt(g.Seq(X_, g.Optional(g.Grp(["-a", "-b"])), Y_), g.Seq(Y_, g.Optional(g.Grp(["-b", "-o"])))),
                      [[G.pos("x"), G.occ("-b"), G.occ("-o", "v")], [G.pos("x"), G.occ("-b"), G.occ("-b")], [G.pos("x"), G.occ("-b"), G.occ("-o", "v"), G.pos("y")]])]:
        st = g.render(p, e_)
        if st in [x["str"] for x in specs]:
            continue
        specs.append({"ast": e_, "str": st})
        for items in seqs:
            lines = G.spellings(p, items, cap=cap, rnd=rnd)
            for env in (["-a"], ["-a", "-e"], []):
                groups.append({"rel": "respell", "members": [{"si": len(specs) - 1, "env": env, "argv": l} for l in lines]})
    # short options named with a digit (legal; reachable through OPTIONS and the generated spec only, the spec grammar has no -4)
    p3 = {"opts": [{"names": "4 ipv4", "flag": True}, {"names": "1 first", "flag": False}, {"names": "q", "flag": True}], "args": ["X"]}
    keys3 = [g.opt_key(o["names"]) for o in p3["opts"]]
    for e_ in (g.Seq(g.Optional(g.Grp(keys3, all_=True)), g.Arg("X")), g.Seq(g.Optional(g.Grp(keys3, all_=True)), g.Optional(g.Arg("X")))):
        specs.append({"ast": e_, "str": g.render(p3, e_), "prog": 1})
        seen3 = set()
        for _ in range(per_spec * 3):
            items = g.sample_items(p3, e_, rnd)
            if rnd.random() < 0.5:
                items = g.shuffle_runs(items, rnd)
            key = tuple(items)
            if key in seen3 or len(items) > 6 or not any(i[0] == "occ" for i in items):
                continue
            seen3.add(key)
            lines = G.spellings(p3, items, cap=cap, rnd=rnd)
            if len(lines) >= 2:
                groups.append({"rel": "respell", "members": [{"si": len(specs) - 1, "env": [], "argv": l} for l in lines]})
    progs = [p, p3]
    triples = gc.run_groups(rep, wd, binpath, progs, specs, groups, "respell")
    gc.finish_groups(rep, progs, specs, triples,
                     "a group = one --free spec x one item sequence (a random sentence of the spec or a one-item perturbation of one) "
                     "x all (capped: a sample of) command lines TLC confirms to have that item reading: every spelling of every "
                     "occurrence and every folding; non-trivial = at least two members and the reference accepts")
    rep.cov["item_sequences"] = nseq
    rep.cov["specs"] = len(specs)
    rep.assumptions += ["values are non-empty and do not start with '='; a value that starts with '-' has the attached and the = spellings only", "standard program (see C01)",
                        "specs without a spec-level --: behind one, tokens are positionals and have no spellings"]
    return rep.finish()


def replay(path, wd):
    return gc.rerun_replay(path, wd)
