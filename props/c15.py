"""C15 - SetByUser is true exactly for values given on the command line."""
import random
from vlib import core, specgen as g, values as V, groups as G, refenum
from props import valcommon as vc, groupcommon as gc

PROP = "C15"


def run(tier, wd):
    rep = core.Report(PROP, tier, "model_checking")
    binpath = core.build_harness()
    rnd = random.Random(core.seed())
    q = tier == "quick"
    # (1) one variable of every built-in type: command-line presence x environment x default
    cases, abstracts = [], []
    n = 0
    for typ in V.BUILTIN:
        for role in ("opt", "arg"):
            for ptr in (False, True):
                for default in V.DEFAULTS[typ]:
                    for envpat in V.env_patterns(1 if q else 2):
                        if V.base(typ) == "string" and "invalid" in envpat:
                            continue
                        for clipat in V.cli_patterns(2, False):
                            n += 1
                            c, a = V.concrete(typ, role, ptr, default, envpat, clipat, rnd, tag="_%d" % (n % 7))
                            cases.append(c)
                            abstracts.append(a)
    rows = vc.run_cases(rep, wd, binpath, cases, abstracts, "c15")
    nontriv = 0
    for case, a, clean, dev, r in rows:
        if r.get("skipped"):
            continue
        if r.get("hang") or r.get("crash") or not r.get("ran"):
            rep.violation("%s: did not run: %s" % (vc.describe(case), {k: r.get(k) for k in ("err", "hang", "crash", "panic")}),
                          {"engine": "values", "case": case, "expected": clean["sbu"]})
            continue
        nontriv += 1
        if r["sbu"] != clean["sbu"]:
            rep.violation("%s: SetByUser=%s, specification says %s" % (vc.describe(case), r["sbu"], clean["sbu"]),
                          {"engine": "values", "case": case, "expected": clean["sbu"]})
        if len(rep.cov["samples"]) < 4 and case["envs"] and rnd.random() < 0.01:
            rep.cov["samples"].append({"case": vc.describe(case), "specification_SetByUser": clean["sbu"], "library_SetByUser": r["sbu"]})
    # (1b) two options that store into one variable, each with a flag of its own: a flag is true iff ITS option was given
    sv_cases = []
    for first, second in ((1, 1), (1, 0), (0, 1), (0, 0), (2, 1)):
        for order in (0, 1):
            a_ = []
            for _ in range(first):
                a_ += rnd.choice([["-o", "v"], ["--opt=v"], ["-ov"]])
            b_ = []
            for _ in range(second):
                b_ += rnd.choice([["-p", "w"], ["--pair=w"], ["-pw"]])
            sv_cases.append(({"type": "string", "role": "opt", "ptr": order == 1, "default": "dflt", "envs": [], "cli": [], "argv": (a_ + b_) if order == 0 else (b_ + a_),
                              "spec": "[-o | -p]...", "pair": "samevar"}, first > 0, second > 0))
    sv_res = core.run_harness(binpath, "values", [c_ for c_, _, _ in sv_cases], wd)
    for (c_, w1, w2), r in zip(sv_cases, sv_res):
        rep.cov["evaluations"] += 1
        if r.get("skipped"):
            continue
        if r.get("hang") or r.get("crash") or not r.get("ran") or r.get("sbu") != w1 or r.get("sbu2") != w2:
            rep.violation("two options -o and -p store into one variable, argv=%s: SetByUser flags are %s and %s (ran=%s), given on the line: %s and %s" % (
                c_["argv"], r.get("sbu"), r.get("sbu2"), r.get("ran"), w1, w2), {"engine": "values", "case": c_, "expected": w1, "expected2": w2})
    # (1c) values that are empty or blank are values: the flag is true
    bl_cases = []
    for typ in ("strings", "string"):
        for role, argvs in (("opt", (["-o", ""], ["--opt", " "], ["-o", "", "-o", " "], ["-o= "])), ("arg", ([""], [" ", ""], ["\t"]))):
            for argv in argvs:
                for ptr in (False, True):
                    bl_cases.append({"type": typ, "role": role, "ptr": ptr, "default": V.DEFAULTS[typ][0], "envs": [], "cli": [], "argv": list(argv),
                                     "spec": "[-o]..." if role == "opt" else "[A...]"})
    bl_res = core.run_harness(binpath, "values", bl_cases, wd)
    for c_, r in zip(bl_cases, bl_res):
        rep.cov["evaluations"] += 1
        if r.get("skipped"):
            continue
        if r.get("hang") or r.get("crash") or not r.get("ran") or r.get("sbu") is not True:
            rep.violation("%s: SetByUser=%s (ran=%s err=%s), the command line supplied a value (an empty or blank one)" % (vc.describe(c_), r.get("sbu"), r.get("ran"), r.get("err")),
                          {"engine": "values", "case": c_, "expected": True})
    # (2) several variables at once (standard program, recording types): the flag of every variable must be true iff the
    # derivation the library picked binds at least one token to it; environment-satisfied elements bind nothing
    p = g.STD_PROG
    # every second spec runs on a program in which two of the variables are declared without a SetByUser pointer
    p2 = dict(p, nosbu=["O:-a", "A:X"])
    specs = g.family(p, 30 if q else 300, core.seed() + 5)
    # an option written directly in the spec (satisfied by the environment without consuming) in front of positionals with two readings
    A_, O_, E_, X_, Y_ = g.Opt("-a"), g.Opt("-o"), g.Opt("-e"), g.Arg("X"), g.Arg("Y")
    for e_ in [g.Seq(g.Optional(A_), g.Optional(X_), Y_), g.Seq(g.Optional(O_), g.Alt(Y_, g.Seq(X_, Y_))), g.Seq(g.Optional(E_), g.Rep(X_), Y_),
               g.Seq(O_, g.Optional(X_), Y_), g.Seq(g.Optional(A_), g.Optional(O_), g.Optional(X_), g.Optional(Y_), X_)]:
        st = g.render(p, e_)
        if st not in [x["str"] for x in specs]:
            specs.append({"ast": e_, "str": st, "extra": True})
    for k, s_ in enumerate(specs):
        s_["prog"] = 0 if s_.get("extra") else k % 2
    keys = [g.opt_key(o["names"]) for o in p["opts"]]
    groups, seen = [], set()
    per_spec = 30 if q else 150
    for si, s in enumerate(specs):
        tries = k = 0
        while k < per_spec and tries < per_spec * 5:
            tries += 1
            items = g.sample_items(p, s["ast"], rnd, vals=("v", "w2", "u", "ae=z", "xo=1"))     # (values with an = behind an option letter)
            if rnd.random() < 0.5:
                items = g.shuffle_runs(items, rnd)
            env = sorted(rnd.sample(keys, rnd.choice([0, 0, 1, 2])))
            for e in env:
                if rnd.random() < 0.6:
                    items = [it for it in items if not (it[0] == "occ" and it[1] == e)]
            if len(items) > 8:
                continue
            line = G.random_line(p, items, rnd) if g.marker_ok(items) else g.render_items(items)
            key = (si, tuple(line), tuple(env))
            if key in seen:
                continue
            seen.add(key)
            k += 1
            groups.append({"rel": "single", "members": [{"si": si, "env": env, "argv": line}]})
    # a literal -- as the value of an optional argument, once options were ended (on the line or by the spec)
    for e_, lines_ in [(g.Seq(X_, g.Optional(Y_)), [["--", "x", "--"], ["--", "x"], ["x", "--", "--"], ["--", "--"]]),
                       (g.Seq(g.End(), X_, g.Optional(Y_)), [["x", "--"], ["x"], ["--", "x", "--"]]),
                       (g.Seq(g.Optional(A_), g.End(), g.Rep(X_), g.Optional(Y_)), [["-a", "x", "--"], ["x", "--", "y"]])]:
        st = g.render(p, e_)
        if st in [x["str"] for x in specs]:
            continue
        specs.append({"ast": e_, "str": st, "prog": 0})
        for line in lines_:
            groups.append({"rel": "single", "members": [{"si": len(specs) - 1, "env": [], "argv": line}]})
    # an attached value that contains an = right behind the letter of another valued option (`-oae=z` is -o with the value ae=z)
    for e_ in [g.Seq(g.Optional(E_), g.Optional(O_), g.Optional(X_)), g.Seq(g.Optional(g.Grp(["-e", "-o", "-b"])), g.Optional(X_)), g.Seq(g.Rep(g.Optional(g.Alt(E_, O_))))]:
        st = g.render(p, e_)
        if st in [x["str"] for x in specs]:
            continue
        specs.append({"ast": e_, "str": st, "prog": 0})
        for line in (["-oae=z"], ["-oae=z", "x"], ["-boae=z"], ["-oe=z"], ["--out=e=z"], ["-o", "e=z"], ["-exo=1"], ["-e", "u", "-oxe=1"]):
            groups.append({"rel": "single", "members": [{"si": len(specs) - 1, "env": [], "argv": line}]})
    for si, s in enumerate(specs):
        if s.get("extra"):
            lead = [x["a"] for x in g.walk(s["ast"]) if x["k"] == "opt"][:1]
            for env in (lead, sorted(set(lead + ["-b"]))):
                for line in (["x"], ["x", "y"], ["x", "y", "z1"]):
                    groups.append({"rel": "single", "members": [{"si": si, "env": env, "argv": line}]})
    t2 = gc.run_groups(rep, wd, binpath, [p, p2], specs, groups, "multi", law="oracle")
    multi_nontriv = 0
    for grp, pr, rs, v, classes in t2:
        r = rs[0]
        if not r.get("ran"):
            continue
        obs = refenum.observed_map(r)
        acc = pr["preds"][0]["acc"]
        if obs in acc:
            bound = set(k for k, _ in obs)
        else:
            # not a valid derivation (C02's business) - unless every derivation of the line binds the same variables: then the
            # flags are determined all the same
            varsets = set(frozenset(k for k, _ in m) for m in acc)
            if len(varsets) != 1 or pr["preds"][0]["uncl"] or pr["preds"][0]["accG"] != acc:
                continue
            bound = set(next(iter(varsets)))
        wrong = [var for var, flag in r["sbu"].items() if flag != (var in bound)]
        if len(bound) >= 2:
            multi_nontriv += 1
        if wrong:
            m = grp["members"][0]
            rep.violation("spec=%r env=%s argv=%s: SetByUser wrong for %s (flags %s, bound %s)" % (
                specs[m["si"]]["str"], m["env"], m["argv"], wrong, r["sbu"], sorted(bound)), dict(gc.replay_obj([p, p2], specs, grp, rs, "sbu", pr), bound_expected=sorted(bound)))
    rep.cov["distinct_nontrivial"] = nontriv + multi_nontriv
    rep.cov["multi_variable_cases_with_two_or_more_bound"] = multi_nontriv
    rep.cov["rule"] = ("(1) 7 built-in types x option/argument x plain/Ptr x two defaults x environment lists x 0..2 command-line values: Values.tla predicts the flag; "
                       "(2) random sentences of sampled specs over the standard program with 0-2 environment-backed options, often omitted from the line: the flag of "
                       "every variable, read inside the Action, must equal 'the derivation binds a token to it' (the derivation is checked against RefSemantics.tla); "
                       "non-trivial = the Action ran (1) / at least two variables bound (2)")
    rep.assumptions += ["flags are read inside the Action"]
    return rep.finish()


def replay(path, wd):
    import json
    with open(path) as f:
        o = json.load(f)["replay"]
    if o.get("engine") == "values":
        return vc.replay_values(path, wd, lambda o, r: not r.get("ran") or r.get("sbu") != o["expected"] or ("expected2" in o and r.get("sbu2") != o["expected2"]))
    binpath = core.build_harness()
    pf = wd + "/progs.json"
    json.dump(o["progs"], open(pf, "w"))
    m = o["members"][0]
    r = core.run_harness(binpath, "exec", [{"id": 0, "prog": m["prog"], "spec": m["spec"], "env": m["env"], "argv": m["argv"]}], wd, env={"HARNESS_PROGS": pf}, shards=1)[0]
    bound = set(o["bound_expected"]) if "bound_expected" in o else set(k for k, _ in refenum.observed_map(r))
    wrong = [var for var, flag in r.get("sbu", {}).items() if flag != (var in bound)]
    print("replay: %s -> sbu=%s bound=%s wrong=%s" % (m, r.get("sbu"), sorted(bound), wrong))
    return 1 if wrong else 0
