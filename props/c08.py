"""C08 - a spec string compiles iff it is well-formed; errors point inside the string."""
import json, os, random
from vlib import core, specgen as g
from props import lexcommon as lc

PROP = "C08"
RENDER = {"ARG": "X", "UARG": "Z", "SH": "-a", "USH": "-z", "LG": "--out", "ULG": "--zz", "SEQ": "-ab", "USEQ": "-az", "OPTS": "OPTIONS",
          "(": "(", ")": ")", "[": "[", "]": "]", "|": "|", "...": "...", "VAL": "=<v>", "--": "--"}
RENDER2 = dict(RENDER, ARG="Y", SH="-b", LG="--aa", SEQ="-ba", UARG="X1_Q", ULG="--o-ut", VAL="=<a b>", USEQ="-zay")   # two undeclared letters
RENDER3 = dict(RENDER, USEQ="-yz", SEQ="-abo", VAL="=<n<10>", LG="--out", UARG="ARG9", ULG="--x9")


def render_kinds(kinds, rnd):
    """spec string for a kind sequence + the byte position of every token"""
    table = rnd.choice([RENDER, RENDER2, RENDER3])
    s = rnd.choice(["", "", " ", "  ", "\t"])
    pos = []
    for i, k in enumerate(kinds):
        if i > 0:
            left = kinds[i - 1]
            safe = left in ("(", "[", "|") or k in (")", "]", "|", "...", "VAL")
            s += rnd.choice(["", " "]) if safe else rnd.choice([" ", " ", "\t", "  "])
        pos.append(len(s))
        s += table[k]
    s += rnd.choice(["", "", " ", "\t "])
    return s, pos


def run(tier, wd):
    rep = core.Report(PROP, tier, "model_checking")
    binpath = core.build_harness()
    rnd = random.Random(core.seed())
    q = tier == "quick"
    core.replay_witnesses(rep, binpath, wd)
    # ---- lexical: every string over the character classes up to length 4 (5)
    res, runs, rows = lc.lexer_runs(rep, wd, binpath, "MCLex4")
    drift = 0
    lex_nontriv = set()
    for m, s, ri, r in rows:
        rep.cov["evaluations"] += 1
        j = lc.judge_lex(m, s, ri, r)
        if j and j[0] == "violation":
            rep.violation("lexer: " + j[1], {"engine": "lex", "model": m, "s": s, "rep": ri})
        elif j:
            drift += 1
            if drift <= 3:
                rep.notes.append("drift " + j[1])
        if len(m["toks"]) >= 2 or (not m["refok"] and m["q"] > 0):
            lex_nontriv.add(s)
    rep.cov["lexer_strings"] = len(runs)
    rep.cov["lexer_runs_on_library"] = len(rows)
    # ---- lexical, whole strings: random strings over the spec alphabet, validated by TLC against SpecLexer.tla (binding B)
    alphabet = list("  \t[]()|.-=<>") + list("AQXOPTIONSazbo18_#~") + [rnd.choice("BCDEFGHIJKLMRUVWYZ"), rnd.choice("cdefghijklmnpqrstuvwxy"), rnd.choice("0234567"), "9", "0"] + ["...", "--", "=<", "-a", "OPTIONS", "--out", "X"]
    import itertools
    strs = set()
    while len(strs) < (1500 if q else 60000):
        strs.add("".join(rnd.choice(alphabet) for _ in range(rnd.randint(5, 24))))
    # and every juxtaposition of up to three lexical units (tokens glued together without blanks)
    units = ["-a", "-ab", "--", "--a", "--a-b", "A", "A1_", "...", "=<a>", "[", ")", "|", " ", "-", "a", "1", "_", "#", "OPTIONS", "..", "=<", ">"]
    for n in (1, 2, 3):
        for combo in itertools.product(units, repeat=n):
            strs.add("".join(combo))
    if not q:
        # thorough: every string of length 5 over 13 of the classes (generated here, read by TLC from the file: building 17^5 or even
        # 13^5 strings inside TLC's Init did not finish within 50 minutes)
        for combo in itertools.product([" ", "[", ")", "|", ".", "-", "=", "<", ">", "A", "a", "1", "#"], repeat=5):
            strs.add("".join(combo))
    strs = sorted(strs)
    sub = os.path.join(wd, "lexfile")
    os.makedirs(sub, exist_ok=True)
    with open(os.path.join(sub, "lexstrings.json"), "w") as f:
        json.dump([list(s) for s in strs], f)
    resf = core.run_tlc(sub, "MCLex", cfg="MCLexFile", timeout=3000)
    core.tlc_must_finish(resf, "SpecLexer on recorded strings")
    rep.add_tlc(resf)
    model = {}
    for p in set(resf.printed("LEX")):
        o = json.loads(p)
        model["".join(o["s"])] = o
    if len(model) != len(strs):
        raise core.Broken("SpecLexer emitted %d of %d file strings" % (len(model), len(strs)))
    results = core.run_harness(binpath, "lex", [{"s": s} for s in strs], sub)
    for s, r in zip(strs, results):
        rep.cov["evaluations"] += 1
        j = lc.judge_lex(model[s], s, 0, r)
        if j and j[0] == "violation":
            rep.violation("lexer: " + j[1], {"engine": "lex", "model": model[s], "s": s, "rep": 0})
        elif j:
            drift += 1
        if model[s]["refok"] or model[s]["q"] > 4:
            lex_nontriv.add(s)
    # ---- syntactic: every sequence of token kinds up to length 4 (5), declared and undeclared names
    sub = os.path.join(wd, "parse")
    os.makedirs(sub, exist_ok=True)
    resp = core.run_tlc(sub, "MCParser", cfg="MCParser4", timeout=3000)
    core.tlc_must_finish(resp, "SpecParser")
    rep.add_tlc(resp)
    seqs = [json.loads(p) for p in sorted(set(resp.printed("PARSE")))]
    if not q:
        # thorough: all sequences of length 5 and 6 over 10 resp. 7 kinds, listed in a file (TLC's Init cannot build 17^5 sequences in
        # reasonable time), walked by the same machine
        k10 = ["ARG", "UARG", "SH", "OPTS", "(", ")", "[", "]", "|", "...", "--"]
        k7 = ["ARG", "SH", "(", ")", "[", "]", "|"]
        more = [list(c) for c in itertools.product(k10, repeat=5)] + [list(c) for c in itertools.product(k7, repeat=6)]
        with open(os.path.join(sub, "parseseqs.json"), "w") as f:
            json.dump(more, f)
        resp2 = core.run_tlc(sub, "MCParser", cfg="MCParserFile", timeout=6000)
        core.tlc_must_finish(resp2, "SpecParser on listed sequences")
        rep.add_tlc(resp2)
        seqs += [json.loads(p) for p in sorted(set(resp2.printed("PARSE")))]
    cases, meta = [], []
    for m in seqs:
        s, pos = render_kinds(m["t"], rnd)
        cases.append({"id": len(cases), "prog": 0, "spec": s, "env": [], "argv": []})
        meta.append((m, s, pos))
    pf = os.path.join(sub, "progs.json")
    with open(pf, "w") as f:
        json.dump([g.STD_PROG], f)
    results = core.run_harness(binpath, "exec", cases, sub, env={"HARNESS_PROGS": pf})
    parse_nontriv = 0
    for (m, s, pos), r in zip(meta, results):
        rep.cov["evaluations"] += 1
        if len(m["t"]) == 0:
            continue     # the empty string is "no spec" (C16)
        why = None
        if r.get("skipped"):
            continue
        if r.get("hang") or r.get("crash"):
            why = "compiling %r %s" % (s, "hangs" if r.get("hang") else "crashes: " + r["crash"])
        elif m["wf"]:
            if r.get("specerr"):
                why = "%r is well-formed but rejected: %s at %d" % (s, r["specerr"]["msg"], r["specerr"]["pos"])
            elif r.get("panic"):
                why = "%r: panic %s" % (s, r["panic"])
        else:
            want = len(s) if m["err"] > len(pos) else pos[m["err"] - 1]
            if not r.get("specerr"):
                why = "%r is not well-formed (token %d) but compiled (ran=%s err=%r panic=%r)" % (s, m["err"], r.get("ran"), r.get("err"), r.get("panic"))
            elif r.get("ran") or r.get("hooks"):
                why = "%r: Action/interceptors ran although the spec is rejected" % s
            elif not (0 <= r["specerr"]["pos"] <= len(s)):
                why = "%r: error position %d outside the string" % (s, r["specerr"]["pos"])
            elif r["specerr"]["pos"] != want:
                why = "%r: error position %d, the offending token (%s) is at %d" % (s, r["specerr"]["pos"], "end" if m["err"] > len(pos) else m["t"][m["err"] - 1], want)
        if why:
            rep.violation("parser: " + why, {"engine": "parse", "model": m, "s": s, "pos": pos})
        if m["wf"] or m["err"] > 1:
            parse_nontriv += 1
        if len(rep.cov["samples"]) < 6 and len(m["t"]) >= 4 and rnd.random() < 0.0005:
            rep.cov["samples"].append({"kinds": m["t"], "string": s, "specification": {"well_formed": m["wf"], "error_token": m["err"]},
                                       "library": r.get("specerr") or "compiled"})
    # the same for the spec of a sub command (compiled lazily while descending): Run must panic with the spec error before the
    # interceptors of the levels above it run
    from vlib import tree as T
    bad = [(m, ) for m in seqs if not m["wf"] and 2 <= len(m["t"]) <= 4]
    rnd.shuffle(bad)
    tcases, tmeta = [], []
    for (m,) in bad[: 150 if q else 3000]:
        s_, pos = render_kinds(m["t"], rnd)
        nodes = [{"names": ["app"], "path": "app", "spec": "[-a]", "opts": [{"names": "a aa", "flag": True}], "intopt": "", "args": [], "subs": [1], "action": True},
                 {"names": ["sub"], "path": "app sub", "spec": s_, "opts": [{"names": "a aa", "flag": True}, {"names": "b", "flag": True}, {"names": "o out", "flag": False}],
                  "intopt": "", "args": ["X", "Y"], "subs": [], "action": True}]
        tcases.append({"nodes": nodes, "version": "", "policy": rnd.choice(["continue", "exit", "panic"]), "argv": ["-a", "sub", "x"]})
        tmeta.append((m, s_))
    tres = core.run_harness(binpath, "tree", tcases, sub)
    for (m, s_), r in zip(tmeta, tres):
        rep.cov["evaluations"] += 1
        if r.get("skipped"):
            continue
        if r.get("hang") or r.get("crash"):
            rep.violation("sub command spec %r: %s" % (s_, r), {"engine": "parse", "model": m, "s": s_, "pos": []})
        elif not r.get("panic", "").startswith("error:Parse error") or r["log"]:
            rep.violation("sub command with the ill-formed spec %r: Run must panic with the spec error before any interceptor runs; panic=%r, ran %s" % (
                s_, r.get("panic"), r["log"]), {"engine": "parse", "model": m, "s": s_, "pos": []})
    rep.cov["sub_command_spec_errors"] = len(tcases)
    # ... and for the application's own spec whatever the arguments are: a version or help request, nothing, a sub command
    vcases, vmeta = [], []
    for (m,) in bad[: 150 if q else 3000]:
        s_, pos = render_kinds(m["t"], rnd)
        for argv in (["-v"], ["--version"], ["--help"], ["sub"], ["sub", "-h"]):
            nodes = [{"names": ["app"], "path": "app", "spec": s_, "opts": [{"names": "a aa", "flag": True}, {"names": "b", "flag": True}, {"names": "o out", "flag": False}],
                      "intopt": "", "args": ["X", "Y"], "subs": [1], "action": True},
                     {"names": ["sub"], "path": "app sub", "spec": "", "opts": [], "intopt": "", "args": [], "subs": [], "action": True}]
            vcases.append({"nodes": nodes, "version": "v version", "policy": rnd.choice(["continue", "exit", "panic"]), "argv": argv})
            vmeta.append((m, s_))
            if argv in (["--help"], ["sub"]):
                # ... and on an application object whose earlier Run was already rejected for that spec
                vcases.append({"nodes": nodes, "version": "v version", "policy": rnd.choice(["continue", "exit", "panic"]), "argv": argv, "prerun": [[], ["x"]]})
                vmeta.append((m, s_))
    vres = core.run_harness(binpath, "tree", vcases, sub)
    for (m, s_), c, r in zip(vmeta, vcases, vres):
        rep.cov["evaluations"] += 1
        if r.get("skipped"):
            continue
        if r.get("hang") or r.get("crash"):
            rep.violation("application spec %r, argv %s: %s" % (s_, c["argv"], r), {"engine": "treeparse", "case": c})
        elif not r.get("panic", "").startswith("error:Parse error") or r["log"] or r.get("version"):
            rep.violation("application with the ill-formed spec %r run with %s%s: Run must panic with the spec error; panic=%r, ran %s, version printed=%s" % (
                s_, c["argv"], " after earlier runs %s" % c["prerun"] if c.get("prerun") else "", r.get("panic"), r["log"], r.get("version")), {"engine": "treeparse", "case": c})
    rep.cov["application_spec_errors_with_requests"] = len(vcases)
    rep.cov["kind_sequences"] = len(seqs)
    rep.cov["traces_validated_against_impl"] = len(rows) + len(strs) + len(seqs)
    rep.cov["distinct_nontrivial"] = len(lex_nontriv) + parse_nontriv
    rep.cov["drift_notes"] = drift
    rep.cov["exhaustive"] = True
    rep.cov["rule"] = ("lexical: every string over 17 character classes up to length 4 (thorough: plus length %d over 13 classes) (TLC runs the scanner machine and the token grammar on each; two concrete "
                       "representatives per class go through lexer.Tokenize) + random strings of 5..24 symbols validated by TLC; syntactic: every sequence of <= %d "
                       "token kinds over 17 kinds (declared/undeclared variants; thorough: also length 5 over 11 kinds and length 6 over 7 kinds), rendered with random blanks/tabs and leading blanks, compiled through Run; "
                       "non-trivial = at least two tokens / error not at the first character / well-formed or error behind the first token" % ((4, 4) if q else (5, 5)))
    rep.assumptions += ["the scanner model's exact error position is drift only; the property-level check is: accepted iff the token grammar accepts, same tokens, "
                        "error position between the first untokenisable character and the end",
                        "for syntactic errors the offending token is the first token at which the recursive descent of SpecParser.tla stops (TLC proves that machine "
                        "equivalent to the grammar on every explored sequence)"]
    return rep.finish()


def replay(path, wd):
    with open(path) as f:
        o = json.load(f)["replay"]
    binpath = core.build_harness()
    if o["engine"] == "lex":
        r = core.run_harness(binpath, "lex", [{"s": o["s"]}], wd, shards=1)[0]
        j = lc.judge_lex(o["model"], o["s"], o["rep"], r)
        print("replay: %r -> %s ; %s" % (o["s"], json.dumps(r), j))
        return 1 if j and j[0] == "violation" else 0
    if o["engine"] == "treeparse":
        r = core.run_harness(binpath, "tree", [o["case"]], wd, shards=1)[0]
        print("replay: %s -> %s" % (o["case"]["argv"], json.dumps(r)))
        return 0 if (r.get("panic", "").startswith("error:Parse error") and not r["log"] and not r.get("version")) else 1
    pf = os.path.join(wd, "progs.json")
    with open(pf, "w") as f:
        json.dump([g.STD_PROG], f)
    r = core.run_harness(binpath, "exec", [{"id": 0, "prog": 0, "spec": o["s"], "env": [], "argv": []}], wd, env={"HARNESS_PROGS": pf}, shards=1)[0]
    m, pos, s = o["model"], o["pos"], o["s"]
    print("replay: %r -> %s" % (s, json.dumps(r)))
    if m["wf"]:
        return 1 if (r.get("specerr") or r.get("panic")) else 0
    want = len(s) if m["err"] > len(pos) else pos[m["err"] - 1]
    return 0 if (r.get("specerr") and r["specerr"]["pos"] == want and not r.get("ran") and not r.get("hooks")) else 1
