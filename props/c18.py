"""C18 - invalid declarations fail fast."""
import json, random
from vlib import core

PROP = "C18"


def judge(c, r):
    """returns None or a description of the disagreement"""
    if r.get("skipped"):
        return None
    if r.get("hang") or r.get("crash"):
        return "hang/crash %s" % r
    if c.get("insub"):
        want = "panic" in c["outcome"]
        if bool(r.get("subpanic")) != want:
            return "declared inside a sub command's initialiser, then the application's help requested: Run %s (%s), specification says %s" % (
                "panicked" if r.get("subpanic") else "returned", r.get("submsg"), "a declaration must panic" if want else "every declaration is accepted")
        if not want and c["decls"] and r.get("subpanic2") is not True:
            return ("declared inside a sub command's initialiser: the second help request runs the initialiser again on the same command, every "
                    "declaration repeats a name that is taken and must panic; Run returned")
        return None
    for k, (want, got) in enumerate(zip(c["outcome"], r["panics"])):
        if want == "either":
            continue
        if (want == "panic") != got:
            return "declaration %d (%s) %s, specification says it must %s" % (k, c["decls"][k], "panicked (%s)" % r["msgs"][k] if got else "was accepted",
                                                                               "panic" if want == "panic" else "be accepted")
    if any(o == "either" for o in c["outcome"]):
        return None     # the table is in an unclaimed state: addressing is not judged
    owner = c["owner"] if isinstance(c["owner"], dict) else {}
    if c["kind"] == "opts":
        for name, idx in owner.items():
            spelled = ("-" if len(name) == 1 else "--") + name
            got = r["address"].get(spelled)
            if got != [idx]:
                return "%s sets the variables of declarations %s (error %s), specification says exactly declaration %d" % (spelled, got, r.get("runerr", {}).get(spelled), idx)
    else:
        for name, idx in owner.items():
            if r["address"].get(name) != [idx]:
                return "argument %s does not receive its value (%s)" % (name, r.get("runerr"))
    return None


def run(tier, wd):
    rep = core.Report(PROP, tier, "model_checking")
    binpath = core.build_harness()
    q = tier == "quick"
    res = core.run_tlc(wd, "MCDecl", cfg="MCDecl" if q else "MCDeclDeep", timeout=3000)
    core.tlc_must_finish(res, "Decl")
    rep.add_tlc(res)
    cases = [json.loads(p) for p in sorted(set(res.printed("DECL")))]
    want = (8420 + 14 + 14 ** 2 + 14 ** 3) if q else (20 + 20 ** 2 + 20 ** 3 + 20 ** 4 + 14 + 14 ** 2 + 14 ** 3 + 14 ** 4)
    if len(cases) != want:
        raise core.Broken("Decl.tla emitted %d sequences, expected %d" % (len(cases), want))
    # a second name universe: names that differ only by case, by an underscore versus a dash, a one-letter upper-case name
    res2 = core.run_tlc(wd, "MCDecl2", cfg="MCDecl2", timeout=3000)
    core.tlc_must_finish(res2, "Decl (second name universe)")
    rep.add_tlc(res2)
    cases2 = [json.loads(p) for p in sorted(set(res2.printed("DECL")))]
    cases2 = [c for c in cases2 if c["kind"] == "opts"]
    if len(cases2) != 30 + 30 ** 2 + 30 ** 3:
        raise core.Broken("Decl.tla (second name universe) emitted %d option sequences" % len(cases2))
    cases = cases + cases2
    def concrete(c):
        if c["kind"] == "args":
            return {"kind": "args", "decls": [n.replace("~", "\u0142").replace("!", "\n").replace("?", "\r") for n in c["decls"]]}
        return {"kind": c["kind"], "decls": c["decls"]}
    # Cli.Version declares an option too: every option sequence again with one of its declarations made through Version (the name
    # table of Decl.tla does not care through which entry point a declaration arrives)
    vcases = []
    for c in cases:
        if c["kind"] == "opts" and len(c["decls"]) <= 3:
            for k in range(len(c["decls"])):
                vcases.append(dict(c, version=k))
    # ... and with a help request served between two declarations (the name table does not care)
    rcases = []
    for c in cases:
        if 2 <= len(c["decls"]) <= 3:
            for k in range(len(c["decls"]) - 1):
                rcases.append(dict(c, runafter=k))
    # ... and with the declarations made inside the initialiser of a sub command, which the application's help request runs
    scases = [dict(c, insub=True) for c in cases if len(c["decls"]) <= 3 and "either" not in c["outcome"]]
    cases = cases + vcases + rcases + scases
    rep.cov["sequences_inside_a_sub_command"] = len(scases)
    rep.cov["sequences_with_a_run_in_between"] = len(rcases)
    rep.cov["sequences_with_a_version_declaration"] = len(vcases)
    results = core.run_harness(binpath, "decl", [dict(concrete(c), **{k: c[k] for k in ("version", "runafter", "insub") if k in c}) for c in cases], wd)
    rnd = random.Random(core.seed())
    nontriv = 0
    for c, r in zip(cases, results):
        rep.cov["evaluations"] += 1
        why = judge(c, r)
        if why:
            rep.violation("%s %s%s: %s" % (c["kind"], c["decls"], (" (declaration %d through Version)" % c["version"] if "version" in c else "") + (" (help request after declaration %d)" % c["runafter"] if "runafter" in c else "") + (" (inside a sub command)" if c.get("insub") else ""), why), {"engine": "decl", "case": c})
        if "panic" in c["outcome"]:
            nontriv += 1
        if len(rep.cov["samples"]) < 5 and len(c["decls"]) == 3 and "panic" in c["outcome"] and "ok" in c["outcome"][1:] and rnd.random() < 0.01:
            rep.cov["samples"].append({"case": {"kind": c["kind"], "decls": c["decls"]}, "specification": c["outcome"], "library_panics": r["panics"]})
    rep.cov["traces_validated_against_impl"] = len(cases)
    rep.cov["distinct_nontrivial"] = nontriv
    rep.cov["exhaustive"] = True
    rep.cov["rule"] = ("every sequence of 1..3 (thorough: 1..4) option declarations with name lists of 1..2 names over {a, b, ab, ba} (8420 / 168420) and every sequence of 1..3 (1..4) argument "
                       "declarations over {X, Y, X1_, x, 1X, OPTIONS, X-Y, Xy, _X, X_Y, X\u0142, \u0142, X<LF>, <CR>X} (2954 / 41370): Decl.tla keeps the name table and says which declarations must panic; "
                       "each declaration is made on the library under recover, then every name of every accepted option is used on a command line and must set "
                       "exactly its own variable; non-trivial = the sequence contains a declaration that must panic")
    rep.assumptions += ["a name listed only by a rejected declaration is unclaimed when reused (the property does not say; the code leaves it half-registered)",
                        "argument names contain no blanks (C08 covers those)"]
    return rep.finish()


def replay(path, wd):
    with open(path) as f:
        c = json.load(f)["replay"]["case"]
    binpath = core.build_harness()
    decls = [n.replace("~", "\u0142").replace("!", "\n").replace("?", "\r") for n in c["decls"]] if c["kind"] == "args" else c["decls"]
    r = core.run_harness(binpath, "decl", [dict({"kind": c["kind"], "decls": decls}, **{k: c[k] for k in ("version", "runafter", "insub") if k in c})], wd, shards=1)[0]
    why = judge(c, r)
    print("replay: %s %s -> %s ; %s" % (c["kind"], c["decls"], json.dumps(r), why or "agrees with the specification"))
    return 1 if why else 0
