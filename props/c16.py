"""C16 - a missing spec means `[OPTIONS] ARG1 ARG2 ...`."""
import itertools, random
from vlib import core, specgen as g, groups as G, structeq
from props import groupcommon as gc

PROP = "C16"
OPTS = [{"names": "a aa", "flag": True}, {"names": "b", "flag": True}, {"names": "o out", "flag": False}]
ARGS = ["X", "Y", "X1_"]


def programs(rnd, q):
    progs = []
    for no in range(0, 4):
        for na in range(0, 4):
            for opts in itertools.combinations(OPTS, no):
                for args in itertools.permutations(ARGS, na):
                    if q and na == 3 and args != tuple(ARGS):
                        continue
                    decl = ["o%d" % i for i in range(no)] + ["a%d" % j for j in range(na)]
                    orders = [decl, ["a%d" % j for j in range(na)] + ["o%d" % i for i in range(no)]]
                    if no and na:
                        mixed = list(decl)
                        rnd.shuffle(mixed)
                        orders.append(mixed)
                    for order in orders if (no and na) else [decl]:
                        progs.append({"opts": list(opts), "args": list(args), "order": order})
    # applications whose only (or first) option is the one Cli.Version declares: it is an option like any other for the generated spec
    V = {"names": "v version", "flag": True, "version": True}
    for args in ([], ["X"], ["X", "Y"]):
        progs.append({"opts": [V], "args": list(args), "order": ["o0"] + ["a%d" % j for j in range(len(args))]})
    progs.append({"opts": [V, OPTS[2]], "args": ["X"], "order": ["o0", "o1", "a0"]})
    return progs


def run(tier, wd):
    rep = core.Report(PROP, tier, "model_checking")
    binpath = core.build_harness()
    rnd = random.Random(core.seed())
    q = tier == "quick"
    progs = programs(rnd, q)
    specs, groups = [], []
    usage_expect = {}
    per_prog = 10 if q else 40
    for pi, p in enumerate(progs):
        keys = [g.opt_key(o["names"]) for o in p["opts"]]
        # the explicit spec of the statement: options in declaration order inside OPTIONS, arguments in declaration order
        arg_order = [p["args"][int(x[1:])] for x in p["order"] if x[0] == "a"]
        opt_order = [keys[int(x[1:])] for x in p["order"] if x[0] == "o"]
        parts = ([g.Optional(g.Grp(opt_order, all_=True))] if keys else []) + [g.Arg(a) for a in arg_order]
        ast = g.Seq(*parts)
        explicit = " ".join((["[OPTIONS]"] if keys else []) + arg_order)
        si = len(specs)
        specs.append({"ast": ast, "str": None, "prog": pi})
        specs.append({"ast": ast, "str": explicit if explicit else None, "prog": pi})
        usage_expect[si] = explicit
        lines = set()
        lines.add(())
        tries = 0
        while len(lines) < per_prog and tries < per_prog * 5:
            tries += 1
            items = g.sample_items(p, ast, rnd, poss=("x", "y", "z1", "-")) if parts else []     # a lone dash is an argument value
            r = rnd.random()
            if r < 0.3:
                items = g.shuffle_runs(items, rnd)
            elif r < 0.6 and (keys or arg_order):
                items = g.perturb(p, items, rnd) if items else [("pos", "x")]
            if rnd.random() < 0.15:
                items = items[: len(items) // 2] + [("marker",)] + [i if i[0] == "pos" else ("pos", "x") for i in items[len(items) // 2:]]
            if len(items) > 7:
                continue
            lines.add(tuple(G.random_line(p, items, rnd) if g.marker_ok(items) else g.render_items(items)))
        for line in sorted(lines):
            envs = [[]]
            if arg_order and rnd.random() < 0.4:
                envs.append(["A:" + rnd.choice(arg_order)])       # an argument backed by a set environment variable stays required
            if keys and rnd.random() < 0.3:
                envs.append([rnd.choice(keys)])
            for env in envs:
                members = [{"si": si, "env": env, "argv": list(line)}, {"si": si + 1, "env": env, "argv": list(line)}]
                if rnd.random() < 0.25:
                    for m_ in members:
                        m_["posthelp"] = True      # after Run returned, the help is requested through PrintHelp
                if rnd.random() < 0.3:
                    # the same spec-less command after it already ran (same application object)
                    members.append({"si": si, "env": env, "argv": list(line), "prerun": [[], list(line)]})
                elif rnd.random() < 0.2 and explicit:
                    # ... or after it ran under an explicit spec string that was then taken away again (Spec = "")
                    members.append({"si": si, "env": env, "argv": list(line), "prerun": [[], list(line)], "prespec": explicit})
                    # ... or after the generated spec, which Run stores in the Spec field, was taken away again
                    # (exactly one earlier run: a second one would already see the generated string in the Spec field)
                    members.append({"si": si, "env": env, "argv": list(line), "prerun": [list(line)], "prespec": ""})
                groups.append({"rel": "same", "members": members})
    # unbounded part (binding C): the automaton the library compiles for the spec-less command is language-equivalent to
    # Seq(Optional(Group(all)), Arg...) - and so is the one compiled from the explicit string
    sv = structeq.check(rep, wd, binpath, progs, specs)
    for s_, v in zip(specs, sv):
        if v not in ("equivalent", "skipped"):
            rep.violation("program %s, %s: compiled automaton vs `[OPTIONS] ARG...`: %s" % (progs[s_["prog"]], "no spec string" if s_["str"] is None else repr(s_["str"]), v),
                          {"engine": "structeq", "prog": progs[s_["prog"]], "spec": s_["str"], "ast": s_["ast"]})
    rep.cov["automata_equivalent_to_default_spec"] = sum(1 for v in sv if v == "equivalent")
    triples = gc.run_groups(rep, wd, binpath, progs, specs, groups, "implicit")
    # beside equal outcomes: both members agree with the reference for the explicit AST, and the usage line shows that spec
    out = []
    usage_checked = 0
    for grp, pr, rs, v, classes in triples:
        if v == "ok":
            bad = [i for i, c in enumerate(classes) if c.startswith("violation")]
            has_version = any(o_.get("version") for o_ in progs[specs[grp["members"][0]["si"]]["prog"]]["opts"])
            if bad and not any(p_["uncl"] for p_ in pr["preds"]) and not has_version:   # the version flag has no recording variable
                v = "violation:%s (%s spec) -> %s" % (grp["members"][bad[0]]["argv"], "missing" if bad[0] == 0 else "explicit", classes[bad[0]])
            r0 = rs[0]
            if v == "ok" and r0.get("usage") is not None and r0.get("err"):
                usage_checked += 1
                want = ("Usage: app " + usage_expect[grp["members"][0]["si"]]).rstrip()
                if r0["usage"].rstrip() != want:
                    v = "violation:usage line of the spec-less command is %r, expected %r" % (r0["usage"], want)
            if v == "ok":
                # the same for the spec-less members that ran before on the same object
                for k_, m_ in enumerate(grp["members"]):
                    rk = rs[k_]
                    if k_ >= 2 and rk.get("usage") is not None and rk.get("err"):
                        usage_checked += 1
                        want = ("Usage: app " + usage_expect[grp["members"][0]["si"]]).rstrip()
                        if rk["usage"].rstrip() != want:
                            v = "violation:after earlier runs (%s, spec then %r) the usage line of the spec-less command is %r, expected %r" % (
                                m_.get("prerun"), m_.get("prespec"), rk["usage"], want)
            if v == "ok" and grp["members"][0].get("posthelp") and not (r0.get("specerr") or r0.get("panic") or r0.get("hang") or r0.get("crash")):
                usage_checked += 1
                want = ("Usage: app " + usage_expect[grp["members"][0]["si"]]).rstrip()
                if (r0.get("postusage") or "").rstrip() != want:
                    v = "violation:after Run returned, PrintHelp of the spec-less command shows %r, expected %r" % (r0.get("postusage"), want)
        out.append((grp, pr, rs, v, classes))
    # a spec-less command that has sub commands too (with and without an Action of its own) and its explicit twin: CmdTree.tla says
    # what happens for `[OPTIONS] X` at that level, both must do exactly that
    from vlib import tree as T
    from props import treecommon as tc
    its = T.implicit_trees()
    trs_t, rows_t = tc.run_tree(rep, wd, binpath, ["x"], 1, ["continue"], "c16-tree", trees=its)
    for c, r in rows_t:
        if r.get("skipped") or c["kind"] == "noaction":
            continue
        js = [j for j in T.judge(c, r) if j[0] in ("routing", "bindings", "policy")]
        if js and not c.get("greedy"):
            rep.violation("%s spec: " % ("missing" if its[c["ti"]]["nodes"][0]["spec"] == "" else "explicit") + tc.describe(trs_t, c) + ": " + "; ".join(t for _, t in js),
                          tc.replay_obj(trs_t, c))
    # the usage line of the spec-less command is, character for character, the one of its explicit twin
    by = {}
    for c, r in rows_t:
        if not r.get("skipped") and r.get("usages"):
            by[(c["ti"], tuple(c["argv"]))] = r["usages"][0]
    for (ti, argv), u in sorted(by.items()):
        if ti % 2 == 0 and (ti + 1, argv) in by and by[(ti + 1, argv)] != u:
            c0 = [c for c, r in rows_t if c["ti"] == ti and tuple(c["argv"]) == argv][0]
            rep.violation("argv=%s: usage line of the spec-less command %r, of its twin with `[OPTIONS] X` %r" % (list(argv), u, by[(ti + 1, argv)]), tc.replay_obj(trs_t, c0))
    rep.cov["command_tree_vectors"] = len(rows_t)
    gc.finish_groups(rep, progs, specs, out,
                     "a group = one program (0-3 options out of -a/--aa, -b, -o/--out; 0-3 arguments out of X, Y, X1_ in every order; options declared first, "
                     "arguments declared first, or interleaved) x one command line (random sentence of `[OPTIONS] ARG...`, shuffled, perturbed, with a marker) x optionally "
                     "an environment-backed argument or option; members: the command without spec string and the same command with the explicit spec of the statement. "
                     "Outcomes must be equal, both must agree with RefSemantics on Seq(Optional(Group(all)), Arg...), and the usage line printed on rejection must "
                     "show that spec; non-trivial = the reference accepts", check_oracle=True, usage_expect=usage_expect)
    rep.cov["programs"] = len(progs)
    rep.cov["usage_lines_checked"] = usage_checked
    rep.assumptions += ["all variables use the recording value type"]
    return rep.finish()


def replay(path, wd):
    import json
    with open(path) as f:
        o = json.load(f)["replay"]
    if o.get("engine") == "tree":
        from props import treecommon as tc
        return tc.replay(path, wd, ("routing", "bindings", "policy"))
    if o.get("engine") == "structeq":
        rep = core.Report(PROP, "quick", "model_checking")
        v = structeq.check(rep, wd, core.build_harness(), [o["prog"]], [{"ast": o["ast"], "str": o["spec"], "prog": 0}])[0]
        print("replay: %s" % (v,))
        return 0 if v == "equivalent" else 1
    return gc.rerun_replay(path, wd)
