"""C04 - subcommand routing runs exactly the addressed command with its own bindings."""
import random
import os
from vlib import core, tree as T, harvest
from props import treecommon as tc

PROP = "C04"
CLAUSES = ("routing", "bindings")


def run(tier, wd):
    rep = core.Report(PROP, tier, "model_checking")
    binpath = core.build_harness()
    rnd = random.Random(core.seed())
    q = tier == "quick"
    alphabet = ["c1", "k1", "c2", "d1", "a1", "b1", "e1", "get", "x", "-f", "--", "-v"] if q else \
               ["c1", "k1", "c2", "d1", "a1", "aa", "b1", "bb", "e1", "e2", "ee", "x", "-f", "--force", "-n=7", "--", "-g", "-", "-v"]
    trs, rows = tc.run_tree(rep, wd, binpath, alphabet, 4, ["continue"], "c04")
    if not q:
        # longer vectors over a smaller alphabet
        _, rows5 = tc.run_tree(rep, wd, binpath, ["c1", "k1", "d1", "a1", "b1", "e2", "get", "x", "-f", "--"], 5, ["continue"], "c04-len5")
        rows = rows + rows5
    nontriv = 0
    if not q:
        # random command trees (depth <= 3, fan-out <= 3, aliases) with a shorter bound
        rt = T.random_trees(rnd, 8)
        trs2, rows2 = tc.run_tree(rep, wd, binpath, alphabet, 3, sorted(set(c["policy"] for c, _ in rows)), "%s-random" % PROP.lower(), trees=rt)
        off = len(trs)
        trs = trs + trs2
        for c, r in rows2:
            c["ti"] += off
        rows = rows + rows2
    # a six-level tree with siblings at every level, explored with listed vectors (paths through aliases, help tokens at every
    # position, behind --, after invalid arguments)
    dt = T.deep_tree()
    trs3, rows3 = tc.run_tree(rep, wd, binpath, alphabet, 1, sorted(set(c["policy"] for c, _ in rows)), "%s-deep" % PROP.lower(), trees=[dt])
    off3 = len(trs)
    trs = trs + trs3
    for c, r in rows3:
        c["ti"] += off3
    rows = rows + rows3
    pols = sorted(set(c["policy"] for c, _ in rows))
    # sub commands whose names are spelled like options; a hidden command declared before its visible siblings; a sub command added
    # to the application after earlier runs
    tc.add_tree(rep, wd, binpath, alphabet, pols, "c04-dash", T.dash_tree(), trs, rows)
    tc.add_tree(rep, wd, binpath, alphabet, pols, "c04-blank", T.blank_tree(), trs, rows)
    tc.add_tree(rep, wd, binpath, alphabet, pols, "c04-cluster", T.cluster_tree(), trs, rows)
    tc.add_tree(rep, wd, binpath, alphabet, pols, "c04-alias", T.alias_tree(), trs, rows)
    rows_h = tc.add_tree(rep, wd, binpath, alphabet, pols, "c04-hidden", T.hidden_tree(), trs, rows)
    rows_l = tc.add_tree(rep, wd, binpath, alphabet, pols, "c04-late", T.late_tree(), trs, rows)
    nre = tc.rerun(rep, wd, binpath, trs, rows_h, lambda c: [["-h"], ["bogus"]], CLAUSES, "after earlier runs")
    nre += tc.rerun(rep, wd, binpath, trs, rows_l, lambda c: [["early"], ["nothere"]], CLAUSES, "after earlier runs")
    # the application's Spec assigned between two runs: the observed run validates against the spec in force then
    tc.add_tree(rep, wd, binpath, alphabet, pols, "c04-ints", T.ints_tree(), trs, rows)
    rows_r = tc.add_tree(rep, wd, binpath, alphabet, pols, "c04-respec", T.respec_tree(), trs, rows)
    nre += tc.rerun(rep, wd, binpath, trs, rows_r, lambda c: [["a", "b", "check"], ["a"]], CLAUSES, "after earlier runs under the spec `X X`")
    rep.cov["rerun_cases"] = nre
    kinds = {}
    for c, r in rows:
        if r.get("skipped"):
            continue
        kinds[c["kind"]] = kinds.get(c["kind"], 0) + 1
        if c["kind"] == "noaction":
            continue
        js = [j for j in T.judge(c, r) if j[0] in CLAUSES]
        if js and c.get("greedy"):
            rep.known("Dev_GreedyGroup", tc.describe(trs, c))
            continue
        if js:
            rep.violation(tc.describe(trs, c) + ": " + "; ".join(t for _, t in js), tc.replay_obj(trs, c))
        if c["kind"] == "run" and len(c["levels"]) >= 2 or (c["kind"] == "reject" and c["path"] != "app"):
            nontriv += 1
            if len(rep.cov["samples"]) < 5 and len(c["argv"]) >= 3 and rnd.random() < 0.01:
                rep.cov["samples"].append({"argv": c["argv"], "specification": {"kind": c["kind"], "command": c["path"]}, "library_log": r["log"]})
    # binding B: every Cmd.parse call of the repository's own tests (hooks on) must split its arguments and find the help token
    # the way the routing rules say
    sub = os.path.join(wd, "harvest")
    os.makedirs(sub, exist_ok=True)
    harvest.record(sub)
    nlev, badlev = harvest.validate_levels(rep, sub)
    for e in badlev[:5]:
        rep.violation("repository test run: Cmd.parse with arguments %s and sub commands %s split at %d (help index %d), the routing rules say otherwise" % (
            e["argv"], e["subs"], e["nargs"], e["help"]), {"engine": "leveltrace", "event": e})
    rep.cov["harvested_parse_calls_validated"] = nlev
    rep.cov["evaluations"] += nlev
    rep.cov["traces_validated_against_impl"] += nlev
    rep.cov["outcome_kinds"] = kinds
    rep.cov["distinct_nontrivial"] = nontriv
    rep.cov["exhaustive"] = True
    rep.cov["rule"] = ("5 command trees (depth <= 4 levels, aliases, a level without spec string, a level with a spec-level --, a command without Action) x every "
                       "argument vector over %d tokens (sub command names and aliases, positionals, declared/undeclared options, --) up to length %d (thorough: also 10 tokens up to length 5): CmdTree.tla "
                       "walks Cmd.parse level by level (split at the first direct sub command name, validate the level's own tokens with RefSemantics, descend) "
                       "and says which command runs with which per-level derivations or which level rejects; non-trivial = a run through >= 2 levels or a "
                       "rejection below the root" % (len(alphabet), 4))
    rep.assumptions += ["every command of the claimed cases has an Action; the error policy is set before the sub commands are declared",
                        "help tokens are C14's business and do not occur here"]
    return rep.finish()


def replay(path, wd):
    import json
    with open(path) as f:
        o = json.load(f)["replay"]
    if o.get("engine") == "leveltrace":
        rep = core.Report(PROP, "quick", "model_checking")
        core.build_harness()
        harvest.record(wd)
        n, bad = harvest.validate_levels(rep, wd)
        print("replay: %d recorded Cmd.parse calls, %d disagree with the routing rules" % (n, len(bad)))
        return 1 if bad else 0
    return tc.replay(path, wd, CLAUSES)
