"""C09 - `--` ends option parsing; what follows is positional, verbatim."""
import random
from vlib import core, specgen as g, groups as G
from props import groupcommon as gc

PROP = "C09"
DASHY = ["-a", "--", "-", "--zz=1", "-x", "-ov", "--out", "-ab", "-o=v", "x"]


def no_end(e): return not g.has(e, "end")
def with_end(e): return g.has(e, "end")


def trailing_block(items):
    m = 0
    for it in reversed(items):
        if it[0] == "pos" and not it[1].startswith("-"):
            m += 1
        else:
            break
    return m


def run(tier, wd):
    rep = core.Report(PROP, tier, "model_checking")
    binpath = core.build_harness()
    rnd = random.Random(core.seed())
    p = g.STD_PROG
    q = tier == "quick"
    core.replay_witnesses(rep, binpath, wd)
    # (a) insertion of -- anywhere in the trailing block of positionals, including the very end
    specs_a = g.family(p, 25 if q else 250, core.seed(), want=no_end)
    per_spec = 25 if q else 120
    ga, seen = [], set()
    for si, s in enumerate(specs_a):
        tries = n = 0
        while n < per_spec and tries < per_spec * 6:
            tries += 1
            items = g.sample_items(p, s["ast"], rnd)
            if rnd.random() < 0.3:
                items = g.shuffle_runs(items, rnd)
            if rnd.random() < 0.25:
                items = g.perturb(p, items, rnd)
            items = [it for it in items if it[0] != "marker"]
            if len(items) > 7:
                continue
            ch = [rnd.choice(G.occ_spellings(p, it))[0] if it[0] == "occ" else None for it in items]
            base = []
            for it, c in zip(items, ch):
                base += [it[1]] if it[0] == "pos" else c
            key = (si, tuple(base))
            if key in seen:
                continue
            seen.add(key)
            n += 1
            m = trailing_block(items)
            L = len(base)
            members = [{"si": si, "env": [], "argv": base}]
            for pos in range(L - m, L + 1):
                members.append({"si": si, "env": [], "argv": base[:pos] + ["--"] + base[pos:]})
            ga.append({"rel": "insert", "members": members})
    ta = gc.run_groups(rep, wd, binpath, [p], specs_a, ga, "insert")
    # (b) after the marker (on the command line or in the spec) every token is bound verbatim: the reference predicts the
    # binding, dash-prefixed tokens and further -- included
    specs_b = g.family(p, 30 if q else 300, core.seed() + 7)
    gb, seen = [], set()
    # two spec-level -- of which the first sits in a choice branch or an optional group: the second one still ends the options on the
    # paths around the first
    A_, X_, Y_ = g.Opt("-a"), g.Arg("X"), g.Arg("Y")
    for e_ in [g.Seq(g.Alt(A_, g.Seq(g.End(), Y_)), g.End(), g.Rep(X_)), g.Seq(g.Optional(g.Seq(g.End(), Y_)), g.End(), g.Rep(X_)),
               g.Seq(Y_, g.Optional(g.Seq(g.End(), Y_)), g.End(), g.Rep(X_)), g.Seq(g.Alt(X_, g.Seq(g.End(), Y_)), g.End(), g.Rep(X_))]:
        st = g.render(p, e_)
        if st in [x["str"] for x in specs_b]:
            continue
        specs_b.append({"ast": e_, "str": st})
        for line in (["-a", "-r", "-s"], ["a", "-r"], ["-r"], ["a", "-r", "-s", "b"], ["-a", "--", "-r"], ["--", "p", "-r"], ["a", "b", "-r"], ["-a"], ["a"], ["-a", "-a"],
                     ["a", "--", "-r"], ["a", "--", "--", "-r"]):
            gb.append({"rel": "single", "members": [{"si": len(specs_b) - 1, "env": [], "argv": line}]})
    per_spec = 25 if q else 120
    for si, s in enumerate(specs_b):
        tries = n = 0
        while n < per_spec and tries < per_spec * 6:
            tries += 1
            items = g.sample_items(p, s["ast"], rnd)
            line = g.render_items(items)
            has_end = g.has(s["ast"], "end")
            # make the tail dashy: from a random point of the trailing positional block on
            m = trailing_block(items)
            if m == 0 and not has_end:
                continue
            L = len(line)
            cut = rnd.randint(L - m, L) if m else L
            tail = [rnd.choice(DASHY) if rnd.random() < 0.7 else t for t in line[cut:]]
            if rnd.random() < 0.3:
                tail.append(rnd.choice(DASHY))
            new = line[:cut] + (["--"] if (not has_end or rnd.random() < 0.5) and "--" not in line[:cut] else []) + tail
            key = (si, tuple(new))
            if key in seen:
                continue
            seen.add(key)
            n += 1
            gb.append({"rel": "single", "members": [{"si": si, "env": [], "argv": new}]})
    tb = gc.run_groups(rep, wd, binpath, [p], specs_b, gb, "verbatim", law="oracle")
    cnt_b = sum(1 for t in tb if t[1]["preds"][0]["acc"])
    # (c) the marker and sub commands: a -- among a level's own tokens (also in front of the sub command name) only ends that level's
    # options; CmdTree.tla says which command runs and what every level binds
    from vlib import tree as T
    from props import treecommon as tc
    t1 = T.trees()[0]
    trs_c, rows_c = tc.run_tree(rep, wd, binpath, ["c1", "d1", "x", "-f", "--", "-n=7"], 4, ["continue"], "c09-tree", trees=[t1])
    tree_cases = 0
    for c, r in rows_c:
        if r.get("skipped") or "--" not in c["argv"] or c["kind"] == "noaction":
            continue
        tree_cases += 1
        js = [j for j in T.judge(c, r) if j[0] in ("routing", "bindings")]
        if js and not c.get("greedy"):
            rep.violation(tc.describe(trs_c, c) + ": " + "; ".join(t for _, t in js), tc.replay_obj(trs_c, c))
    rep.cov["command_tree_vectors_with_a_marker"] = tree_cases
    gc.finish_groups(rep, [p], specs_a + specs_b, [], "")
    # finish_groups over both parts, with their own spec tables
    import collections
    cnt = collections.Counter()
    nontriv = 0
    for specs, triples in ((specs_a, ta), (specs_b, tb)):
        for grp, pr, rs, v, classes in triples:
            cnt[grp["rel"] + ":" + (v.split(":")[0] if v.startswith("violation") else v)] += 1
            if v.startswith("known:"):
                rep.known(v[6:], "%s %s" % (specs[grp["members"][0]["si"]]["str"], grp["members"][0]["argv"]))
            elif v.startswith("violation"):
                rep.violation("%s spec=%r: %s" % (grp["rel"], specs[grp["members"][0]["si"]]["str"], v[10:]), gc.replay_obj([p], specs, grp, rs, v, pr))
            if any(x["acc"] for x in pr["preds"]):
                nontriv += 1
                if len(rep.cov["samples"]) < 6 and rnd.random() < 0.02:
                    rep.cov["samples"].append({"rel": grp["rel"], "spec": specs[grp["members"][0]["si"]]["str"],
                                               "members": [m["argv"] for m in grp["members"][:5]], "library": [gc.fmt(G.outcome(r)) for r in rs[:5]]})
    rep.cov["group_verdicts"] = dict(cnt)
    rep.cov["groups"] = len(ta) + len(tb)
    rep.cov["distinct_nontrivial"] = nontriv
    rep.cov["verbatim_cases_accepted_by_reference"] = cnt_b
    rep.cov["rule"] = ("(a) insert: one --free spec x one marker-free command line (random sentence, shuffled/perturbed) x every insertion point of -- in its "
                       "trailing block of non-dash positionals incl. the very end, excluding the slot between a valued option and its separate value (TLC "
                       "confirms each member is such an insertion); all members must have the same outcome. (b) verbatim: specs with and without a spec-level "
                       "-- x command lines whose tail behind the marker holds dash-prefixed tokens and further --; outcome compared with the reference "
                       "prediction. Groups are distinct by construction; non-trivial = the reference accepts at least one member")
    rep.assumptions += ["standard program (see C01)", "no environment-backed options"]
    return rep.finish()


def replay(path, wd):
    import json
    with open(path) as f:
        o = json.load(f)["replay"]
    if o.get("engine") == "tree":
        from props import treecommon as tc
        return tc.replay(path, wd, ("routing", "bindings"))
    if o["rel"] == "single":
        return gc.rerun_replay(path, wd, law="oracle")
    return gc.rerun_replay(path, wd)
