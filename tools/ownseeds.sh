#!/bin/sh
# usage: tools/ownseeds.sh [jobs] : every archived seeded change against the quick check of its own property (scratch worktrees);
# prints one line per change: <id> rc=<rc>. rc=1 = detected, rc=0 = missed, rc=2 = broken run.
jobs=${1:-5}
cd /verif
ls seeded | grep -E '^C[0-9][0-9]-[A-Z]$' | cut -d- -f1 | sort -u | xargs -P "$jobs" -I{} sh -c '
  for d in seeded/{}-*; do
    id=$(basename $d)
    out=$(tools/seedtest.sh /verif/$d/patch.diff {} 2>&1 | head -1)
    echo "$id $out"
  done'
