#!/usr/bin/env python3
"""writes /verif/MANIFEST.json from the table below (one source of truth for the registered checks)"""
import json, os, sys
V = os.path.dirname(os.path.dirname(os.path.abspath(__file__)))
props = [json.loads(l) for l in open(os.path.join(V, "properties.jsonl"))]

TRUST = "trusted: TLC 1.8.0, the Go toolchain, the harness runner (harness/*.go executes cases and reports, it holds no oracle), the comparison code in props/*.py; "

CHECKS = {
 "C01": dict(level="model_checking", engine="RefEnum+StructEq",
   text="TLC enumerates every (spec, environment set, argument vector) case of a bounded family, RefSemantics.tla predicts the set of valid derivations for each, and every case is replayed on the real library (built from /repo with -tags verif); acceptance must agree. Bounded-exhaustive over the stated family, so any verdict bug reachable with <= maxlen tokens of the alphabet on one of the family's specs is found.",
   note=TRUST + "the family is a sample of all specs (curated operator nestings + seeded random grammar derivations); inputs longer than the bound are covered only by the structural check; unclaimed inputs (DESIGN 3.6) give no verdict; Dev_GreedyGroup is a listed finding",
   technique="TLA+ reference semantics evaluated by TLC over a bounded-exhaustive case family, each TLC-generated case replayed on the real code (spec->code conformance)",
   design="4 (C01), 3"),
 "C02": dict(level="model_checking", engine="RefEnum+RefGroups",
   text="For every case TLC enumerates (bounded-exhaustive family) or is handed (random sentences of further specs in random spellings) RefSemantics.tla yields the SET of valid derivations; the library's observed per-variable sequence of Set calls (recording value types) must be a member. TLC also checks on the reference that positionals are bound in order and that tokens behind the marker are bound verbatim.",
   note=TRUST + "sampled spec family; only accepted cases matter; which of several valid derivations the search picks is not constrained",
   technique="TLA+ reference semantics (set of valid derivations) evaluated by TLC; TLC-generated/TLC-judged cases replayed on the real code and the observed bindings checked for membership",
   design="4 (C02), 3.4"),
 "C09": dict(level="model_checking", engine="RefGroups",
   text="(a) TLC confirms each generated group is a base line plus insertions of -- inside its trailing positional block (relation InsertRel over CmdLine!ItemsOf), checks the law on the reference and the library must give the same outcome for all members; (b) for specs with and without a spec-level --, command lines with dash-prefixed tokens and further -- behind the marker are predicted by the reference and compared with the library's bindings.",
   note=TRUST + "sampled families (random sentences of sampled specs); environment-free as the property states",
   technique="TLA+ relation + law checked by TLC on generated groups (trace validation of the generator), predictions replayed on the real code, metamorphic comparison of real outcomes",
   design="4 (C09)"),
 "C10": dict(level="model_checking", engine="RefGroups",
   text="A group is one --free spec and all (capped) command lines with the same item reading; TLC proves membership with CmdLine!ItemsOf (every spelling, every folding), checks that the reference is constant on the class, and the library must produce the same acceptance and the same bound values for all members.",
   note=TRUST + "sampled specs and sentences; class members capped in the quick tier; values non-empty, not starting with - or =",
   technique="TLA+ definition of re-spelling (ItemsOf) checked by TLC on every generated class; real outcomes of all class members compared",
   design="4 (C10/C11), 3.2"),
 "C11": dict(level="model_checking", engine="RefGroups",
   text="Pairs of command lines whose item readings differ by one transposition of adjacent occurrences of different options (TLC checks IsAdjSwap), in random spellings including the pair folded into one token; the library's outcomes must be equal, and TLC checks the same law on the reference.",
   note=TRUST + "sampled specs and sentences",
   technique="TLA+ definition of adjacent swap checked by TLC on every generated pair; real outcomes compared",
   design="4 (C10/C11)"),
 "C12": dict(level="model_checking", engine="RefGroups",
   text="Pairs (E, E+{o}) of environment-backed sets on the same spec and command line (TLC checks EnvRel and that the reference is monotone: every derivation under E survives under E+{o} for --free specs); on the library, accepted under E implies accepted under E+{o} with identical option values, and each run must agree with the reference under its own environment (required option satisfied by its environment value).",
   note=TRUST + "sampled specs and sentences; environment values are always valid; group-satisfied-by-environment verdicts are unclaimed (DESIGN 3.6 iii)",
   technique="TLA+ monotonicity law checked by TLC on the reference; predictions and pair law replayed on the real code",
   design="4 (C12)"),
 "C05": dict(level="model_checking", engine="Flow",
   text="Flow.tla models Step.Run/callDo and the chain parse() wires as a machine with an explicit call stack; TLC explores every depth x every vector of hook outcomes (absent/returns/panics/Exit) exhaustively, checks the closed-form property (order, Afters of completed levels, last raised value decides, exit once) and termination, and every explored vector is replayed on the library (in-process with a non-returning exit stub; a sample in a child process with the real os.Exit).",
   note=TRUST + "depth <= 2 (quick) / <= 3 (thorough); the in-process exit stub panics with a sentinel instead of exiting (a returning stub is shown by TLC to break the chain)",
   technique="explicit TLA+ state machine of the step chain model-checked exhaustively by TLC; every TLC behaviour replayed on the real code",
   design="4 (C05)"),
 "C06": dict(level="model_checking", engine="Values",
   text="Values.tla runs declaration (default, SetFromEnv over the variable list) and fillContainers (Clear once, Set per token) as a step machine on every case of the product type x role x entry point x default x environment-list pattern x command-line values; TLC checks the clean machine against the closed-form precedence rule on every case; the library executes every case and its final value must equal the prediction (with strconv's parse of each token).",
   note=TRUST + "<= 2 (quick) / 3 (thorough) environment variables and command-line values; Dev_EnvWipesDefault is a listed finding (the machine with the switch on predicts exactly those cases)",
   technique="explicit TLA+ step machine + closed-form invariant checked by TLC on an exhaustive case product; predictions replayed on the real code",
   design="4 (C06)"),
 "C13": dict(level="exploration", engine="Values",
   text="Edge-case and random tokens are run through the library for every numeric/bool/string type, as option and argument, on the command line (alone, before and after a valid token) and via the environment; strconv's verdict on each token (computed in the harness) becomes the ok flag of a Values.tla case and TLC validates each recorded run: usage error iff a command-line token is rejected, bound value = strconv's parse, rejected environment values skipped.",
   note=TRUST + "Go's strconv is the trusted oracle for parsing itself; the token space is sampled (curated edge list + random strings), not enumerated - TLA+ contributes the protocol around conversion, not numeric parsing",
   technique="recorded runs of the real code validated by TLC against the Values.tla step machine (trace validation), strconv verdicts as inputs",
   design="4 (C13), 7"),
 "C15": dict(level="model_checking", engine="Values+RefGroups",
   text="(1) Values.tla predicts SetByUser for one variable of every built-in type over command-line presence x environment x default; (2) for multi-variable command lines (random sentences, env-backed options omitted) the flag of every variable read inside the Action must equal 'the derivation RefSemantics.tla admits binds a token to it'.",
   note=TRUST + "sampled specs for part (2)",
   technique="TLA+ step machine (flag as a variable) model-checked over the case product, and reference derivations; replayed on the real code",
   design="4 (C15)"),
 "C18": dict(level="model_checking", engine="Decl",
   text="Decl.tla keeps the name table over every sequence of <= 3 option declarations (name lists over {a,b,ab,ba}) and every sequence of <= 3 argument declarations over 10 candidate names; TLC enumerates all 9530 sequences and says which declarations must panic and which variable every name addresses; the library replays each sequence under recover and every accepted name is used on a command line.",
   note=TRUST + "small name alphabet; reuse of a name that only a rejected declaration listed is unclaimed",
   technique="explicit TLA+ model of the name table, exhaustive TLC enumeration, every behaviour replayed on the real code",
   design="4 (C18)"),
 "C19": dict(level="model_checking", engine="Values",
   text="For a recording custom value type with each of the 8 combinations of IsBoolFlag/Clear/IsDefault, as option and argument, Values.tla predicts the exact sequence of Clear/Set calls in the declaration phase and in the fill phase for every environment-list pattern x command-line token sequence (accepted or rejected by Set); the calls the library actually made must equal it, a rejected token must be a usage error; bool-capable options are also exercised as bare flags inside folded clusters and option groups.",
   note=TRUST + "<= 2/3 environment variables and tokens",
   technique="explicit TLA+ step machine whose history variable is the call log; exhaustive case product; logs compared with the real code's calls",
   design="4 (C19)"),
 "C03": dict(level="model_checking", engine="SpecLexer+exec",
   text="TLC checks termination (liveness under weak fairness) of the scanner machine of SpecLexer.tla on every class string up to the bound; the library's lexer runs on their concretisations. Random byte strings, random spec-alphabet strings and grammar-derived specs with nested repetitions of optional groups and -- inside repetitions are compiled and run, against 12-16 argument vectors and all 16 subsets of environment-backed options, in sacrificial worker processes with a deadline and a stack limit; every outcome must be a positioned spec error (whose Error() does not panic), acceptance or a usage error.",
   note=TRUST + "termination of simplify/apply is established on the real code by bounded sacrificial runs (deadline 3 s), not by proof; sampled specs; Dev_SimplifyLoop and Dev_EpsLoop were found this way and are fixed in /repo",
   technique="TLC liveness check of the scanner machine; sacrificial execution of generated specs/argument vectors/environment subsets on the real code with crash and hang attribution",
   design="4 (C03)"),
 "C04": dict(level="model_checking", engine="CmdTree",
   text="CmdTree.tla walks Cmd.parse level by level over 4 command trees and every argument vector up to the bound (split at the first direct sub command name, validation of the level's own tokens by RefSemantics, descent) and TLC checks that the 'illegal input' tail is unreachable; every explored invocation is replayed on the library: exactly the predicted command's Before/Action/After chain must run, every level's bindings must be a derivation of its own tokens, and a rejection at level k must run nothing.",
   note=TRUST + "4 hand-written trees (depth <= 4, aliases, spec-less level, spec-level --); vectors up to 4 (quick) / 5 (thorough) tokens",
   technique="explicit TLA+ model of per-level parsing, exhaustive TLC enumeration of argument vectors, every behaviour replayed on the real code",
   design="4 (C04)"),
 "C07": dict(level="model_checking", engine="CmdTree",
   text="Same engine as C04 with all three error policies and an alphabet of rejection causes (spec mismatch at any level, unknown option, unknown word, inconvertible Int value incl. a bad value that is not the last one): the library must run no hook, write the error and the usage of the rejecting command and then return the error / exit once with 2 / panic with the error; accepted invocations return nil without exit or panic.",
   note=TRUST + "fresh application object per invocation (a second Run on the same object is not exercised); policy set before sub commands are declared",
   technique="explicit TLA+ model of parse + onError, exhaustive TLC enumeration, every behaviour replayed on the real code",
   design="4 (C07)"),
 "C08": dict(level="model_checking", engine="SpecLexer+SpecParser",
   text="Lexical: TLC runs the scanner machine and the declarative token grammar on every string over 17 character classes up to length 4/5 (they must agree, tokens must tile the string) and on random/juxtaposed whole strings; each string goes through lexer.Tokenize and must give the same tokens or an error between the first untokenisable character and the end. Syntactic: TLC proves the recursive-descent model equivalent to the spec grammar on every sequence of <= 4/5 token kinds (declared and undeclared names, option after --); each sequence is rendered (random blanks, leading blanks) and compiled through Run: compiled iff well-formed, otherwise a spec error at the offending token before any hook runs.",
   note=TRUST + "bounded lengths; the offending token is defined as where the recursive descent (proved equivalent to the grammar on the explored sequences) stops",
   technique="explicit TLA+ scanner and parser machines checked by TLC against declarative grammars; every explored string/sequence replayed on the real code",
   design="4 (C08)"),
 "C14": dict(level="model_checking", engine="CmdTree",
   text="Same engine as C04 with help tokens and a version flag in the alphabet and three policies: CmdTree.tla scans for the help token up to the first -- at every level (TLC checks that a descendant of a help descent always sees the token) and says whose long help is shown or that the token is data behind a -- of the same level; the library must print 'Usage: <path>' of that command with its long description, run no hook, validate nothing and exit 0 / return nil; a tree whose root declares its own -h option is included.",
   note=TRUST + "unclaimed vectors (help below an ancestor whose own arguments contain --; version with help) are recognised by the specification and skipped",
   technique="explicit TLA+ model of helpIndex/parse/Cli.parse, exhaustive TLC enumeration, every behaviour replayed on the real code",
   design="4 (C14)"),
}

NA_REASON = "check not built yet (framework under construction; see DESIGN.md section 9 for the order)"


def main():
    m = {"version": 1, "setup_cmd": "./setup.sh",
         "hooks": {"guard": "verif",
                   "enable": "go build -tags verif; the harness module (harness/go.mod) replaces github.com/jawher/mow.cli => /repo, so every check rebuilds against /repo's working tree",
                   "baseline_off_cmd": "cd /repo && GOFLAGS=-mod=mod GOPROXY=off GOSUMDB=off go test -vet=off -count=1 -timeout 25m ./...",
                   "source_commits": ["d626f91"], "add_only": True},
         "engines": [
             {"name": "RefEnum", "path": "tla/RefEnum.tla tla/RefSemantics.tla tla/CmdLine.tla vlib/refenum.py harness/exec.go",
              "serves_properties": ["C01", "C02"], "kind_free_text": "TLC-enumerated cases with reference prediction, replayed on the library"},
             {"name": "RefGroups", "path": "tla/RefGroups.tla tla/RefSemantics.tla tla/CmdLine.tla vlib/groups.py props/groupcommon.py harness/exec.go",
              "serves_properties": ["C02", "C09", "C10", "C11", "C12", "C15"], "kind_free_text": "groups of related cases: TLC validates the relation, checks the law on the reference, predicts; the library runs every member"},
             {"name": "Flow", "path": "tla/Flow.tla harness/flow.go props/c05.py", "serves_properties": ["C05"], "kind_free_text": "step-chain machine, exhaustive fault vectors"},
             {"name": "Values", "path": "tla/Values.tla vlib/values.py harness/values.go props/valcommon.py", "serves_properties": ["C06", "C13", "C15", "C19"], "kind_free_text": "one variable from declaration to end of Run; call-log history"},
             {"name": "CmdTree", "path": "tla/CmdTree.tla vlib/tree.py harness/tree.go props/treecommon.py", "serves_properties": ["C04", "C07", "C14"], "kind_free_text": "per-level parsing, help/version short-circuit, error policy"},
             {"name": "SpecLexer/SpecParser", "path": "tla/SpecLexer.tla tla/MCLex.tla tla/SpecParser.tla tla/MCParser.tla harness/lex.go props/lexcommon.py", "serves_properties": ["C03", "C08"], "kind_free_text": "scanner machine vs token grammar; recursive descent vs spec grammar"},
             {"name": "Decl", "path": "tla/Decl.tla tla/MCDecl.tla harness/decl.go props/c18.py", "serves_properties": ["C18"], "kind_free_text": "name table over declaration sequences"}],
         "checks": [], "not_applicable": [],
         "notes": "All checks: ./check <id> [--tier quick|thorough]; exit 2 = machinery failure (never a verdict). Fix commits in /repo: 4e600a3 a7ec4b7 9987887 7c7116f f237444 08da7e9 0f4c4bd (see findings/known.json)."}
    for p in props:
        pid = p["id"]
        if pid in CHECKS:
            c = CHECKS[pid]
            m["checks"].append({"property_id": pid, "quick_cmd": "./check %s --tier quick" % pid,
                                "thorough_cmd": "./check %s --tier thorough" % pid,
                                "evidence_file": "evidence/%s.json" % pid,
                                "replay_cmd_template": "./check %s --replay {path}" % pid,
                                "engine": c["engine"],
                                "level_claimed": {"category": c["level"], "text": c["text"], "design_ref": c["design"]},
                                "level_note": c["note"], "technique": c["technique"]})
        else:
            m["not_applicable"].append({"property_id": pid, "reason": NA_REASON})
    json.dump(m, open(os.path.join(V, "MANIFEST.json"), "w"), indent=1)
    print("checks:", [c["property_id"] for c in m["checks"]])

main()
