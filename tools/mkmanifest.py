#!/usr/bin/env python3
"""writes /verif/MANIFEST.json from the table below (one source of truth for the registered checks)"""
import json, os, sys
V = os.path.dirname(os.path.dirname(os.path.abspath(__file__)))
props = [json.loads(l) for l in open(os.path.join(V, "properties.jsonl"))]

TRUST = "trusted: TLC 1.8.0, the Go toolchain, the harness runner (harness/*.go executes cases and reports, it holds no oracle), the comparison code in props/*.py; "

CHECKS = {
 "C01": dict(level="model_checking", engine="RefEnum+StructEq",
   text="TLC enumerates every (spec, environment set, argument vector) case of a bounded family, RefSemantics.tla predicts the set of valid derivations for each, and every case is replayed on the real library (built from /repo with -tags verif); acceptance must agree. Bounded-exhaustive over the stated family, so any verdict bug reachable with <= maxlen tokens of the alphabet on one of the family's specs is found.",
   note=TRUST + "the family is a sample of all specs (curated operator nestings + seeded random grammar derivations); inputs longer than the bound are covered only by the structural check; unclaimed inputs (DESIGN 3.6) give no verdict; Dev_GreedyGroup is a listed finding",
   technique="TLA+ reference semantics evaluated by TLC over a bounded-exhaustive case family, each TLC-generated case replayed on the real code (spec->code conformance)",
   design="4 (C01), 3"),
}

NA_REASON = "check not built yet (framework under construction; see DESIGN.md section 9 for the order)"


def main():
    m = {"version": 1, "setup_cmd": "./setup.sh",
         "hooks": {"guard": "verif",
                   "enable": "go build -tags verif; the harness module (harness/go.mod) replaces github.com/jawher/mow.cli => /repo, so every check rebuilds against /repo's working tree",
                   "baseline_off_cmd": "cd /repo && GOFLAGS=-mod=mod GOPROXY=off GOSUMDB=off go test -vet=off -count=1 -timeout 25m ./...",
                   "source_commits": ["d626f91"], "add_only": True},
         "engines": [
             {"name": "RefEnum", "path": "tla/RefEnum.tla tla/RefSemantics.tla tla/CmdLine.tla vlib/refenum.py harness/exec.go",
              "serves_properties": ["C01"], "kind_free_text": "TLC-enumerated cases with reference prediction, replayed on the library"}],
         "checks": [], "not_applicable": [],
         "notes": "All checks: ./check <id> [--tier quick|thorough]; exit 2 = machinery failure (never a verdict). Fix commits in /repo: 4e600a3 a7ec4b7 9987887 7c7116f f237444 08da7e9 0f4c4bd (see findings/known.json)."}
    for p in props:
        pid = p["id"]
        if pid in CHECKS:
            c = CHECKS[pid]
            m["checks"].append({"property_id": pid, "quick_cmd": "./check %s --tier quick" % pid,
                                "thorough_cmd": "./check %s --tier thorough" % pid,
                                "evidence_file": "evidence/%s.json" % pid,
                                "replay_cmd_template": "./check %s --replay {path}" % pid,
                                "engine": c["engine"],
                                "level_claimed": {"category": c["level"], "text": c["text"], "design_ref": c["design"]},
                                "level_note": c["note"], "technique": c["technique"]})
        else:
            m["not_applicable"].append({"property_id": pid, "reason": NA_REASON})
    json.dump(m, open(os.path.join(V, "MANIFEST.json"), "w"), indent=1)
    print("checks:", [c["property_id"] for c in m["checks"]])

main()
