#!/bin/bash
# usage: tools/confirm_seed.sh <out dir of a sub-agent> <property id> <A|B>
# Confirms a seeded change in a scratch worktree of /repo (outside /repo and /verif) and archives it under /verif/seeded/.
set -u
out="$1"; pid="$2"; x="$3"; tgt="${4:-$3}"
export GOFLAGS=-mod=mod GOPROXY=off GOSUMDB=off GOTOOLCHAIN=local
wt=$(mktemp -d /tmp/seedwt.XXXXXX); rmdir "$wt"
git -C /repo worktree add -q --detach "$wt" HEAD || exit 2
demo="$out/${x}_demo_test.go"
dir=$(grep -m1 -oE 'internal/[a-z/]+' "$out/$x.notes.md" | head -1)
pkgline=$(grep -m1 '^package ' "$demo" | awk '{print $2}')
case "$pkgline" in cli) dest="$wt";; lexer) dest="$wt/internal/lexer";; fsm) dest="$wt/internal/fsm";; matcher) dest="$wt/internal/matcher";; values) dest="$wt/internal/values";; parser) dest="$wt/internal/parser";; flow) dest="$wt/internal/flow";; *) dest="$wt";; esac
cp "$demo" "$dest/zz_seed_demo_test.go"
cd "$dest" && clean=$(go test -vet=off -count=1 -run 'Demo|Seed|C[0-9][0-9][A-D]_' . 2>&1 | tail -1)
cd "$wt" && git apply "$out/$x.patch.diff" || { echo "PATCH FAILS"; git -C /repo worktree remove --force "$wt"; exit 2; }
rm "$dest/zz_seed_demo_test.go"
build=$(go build ./... 2>&1 | tail -1)
suite=$(go test -vet=off -count=1 ./... 2>&1 | grep -v "no test files" | grep -vc '^ok')
cp "$demo" "$dest/zz_seed_demo_test.go"
cd "$dest" && mut=$(go test -vet=off -count=1 -run 'Demo|Seed|C[0-9][0-9][A-D]_' . 2>&1 | tail -1)
cd /; git -C /repo worktree remove --force "$wt"
echo "$pid/$x clean_demo=[$clean] build=[$build] suite_failures=$suite mutated_demo=[$mut]"
ok=0
case "$clean" in ok*) ;; *) ok=1;; esac
case "$mut" in FAIL*|*FAIL*) ;; *) ok=1;; esac
[ "$suite" = "0" ] || ok=1
if [ $ok = 0 ]; then
  d=/verif/seeded/$pid-$tgt; mkdir -p "$d"
  cp "$out/$x.patch.diff" "$d/patch.diff"; cp "$demo" "$d/demo_test.go"; cp "$out/$x.notes.md" "$d/notes.md"
  echo "CONFIRMED $pid/$x"
else
  echo "NOT CONFIRMED $pid/$x"
fi
