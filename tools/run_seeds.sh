#!/bin/sh
# runs every quick check with the given VERIF_SEED values (evidence and replays go to ./seeds-out)
mkdir -p seeds-out
export VERIF_EVIDENCE_DIR=$PWD/seeds-out VERIF_REPLAY_DIR=$PWD/seeds-out
for s in "$@"; do
  for i in 01 02 03 04 05 06 07 08 09 10 11 12 13 14 15 16 17 18 19 20; do
    VERIF_SEED=$s ./check C$i --tier quick > seeds-out/C$i.$s.log 2>&1; rc=$?
    echo "seed=$s C$i rc=$rc $(tail -1 seeds-out/C$i.$s.log | cut -c1-160)"
  done
done
