#!/usr/bin/env python3
"""Seeded-change matrix: for every /verif/seeded/<id> apply the patch to a scratch worktree of /repo (outside /repo and /verif),
run the quick checks against that copy (VERIF_REPO), record which checks report a violation. Writes seeded/matrix.json.
usage: tools/matrix.py [--jobs N] [--checks C01,C02,...] [--seeds C01-A,...] [--reduced]
--reduced: per seed only its own property's check, C01, C02 and the checks that take a few seconds (C05 C06 C13 C15-C20)"""
import json, os, subprocess, sys, tempfile, shutil, concurrent.futures
V = os.path.dirname(os.path.dirname(os.path.abspath(__file__)))
args = sys.argv[1:]
jobs = int(args[args.index("--jobs") + 1]) if "--jobs" in args else 3
allchecks = ["C%02d" % i for i in range(1, 21)]
checks = args[args.index("--checks") + 1].split(",") if "--checks" in args else allchecks
seeds = sorted(d for d in os.listdir(os.path.join(V, "seeded")) if os.path.isdir(os.path.join(V, "seeded", d)))
if "--seeds" in args:
    seeds = args[args.index("--seeds") + 1].split(",")
outfile = os.path.join(V, "seeded", "matrix.json")


CHEAP = ["C05", "C06", "C13", "C15", "C16", "C17", "C18", "C19", "C20"]


def checks_for(seed):
    if "--reduced" in args:
        own = seed.split("-")[0]
        return sorted(set([own, "C01", "C02"] + CHEAP))
    return checks


def one(seed):
    wt = tempfile.mkdtemp(prefix="mx-%s-" % seed, dir="/tmp")
    os.rmdir(wt)
    meta = json.load(open(os.path.join(V, "seeded", seed, "meta.json")))
    base = meta.get("base", "HEAD") if "obsolete_after" in meta else "HEAD"
    subprocess.run(["git", "-C", "/repo", "worktree", "add", "-q", "--detach", wt, base], check=True)
    res = {}
    try:
        subprocess.run(["git", "-C", wt, "apply", os.path.join(V, "seeded", seed, "patch.diff")], check=True)
        ev = tempfile.mkdtemp(prefix="mxev-", dir="/tmp")
        env = dict(os.environ, VERIF_REPO=wt, VERIF_EVIDENCE_DIR=ev, VERIF_REPLAY_DIR=ev, VERIF_TLC_GB="4")
        for c in checks_for(seed):
            p = subprocess.run([os.path.join(V, "check"), c, "--tier", "quick"], capture_output=True, text=True, env=env, cwd=V)
            first = [l for l in p.stdout.splitlines() if l.startswith("  ")][:1]
            res[c] = {"rc": p.returncode, "violations": p.stdout.count("VIOLATION property="), "first": first[0].strip()[:300] if first else "",
                      "broken": [l for l in p.stdout.splitlines() if l.startswith("BROKEN")][:1]}
        shutil.rmtree(ev, ignore_errors=True)
    finally:
        subprocess.run(["git", "-C", "/repo", "worktree", "remove", "--force", wt])
    return seed, res


matrix = {}
if os.path.exists(outfile):
    matrix = json.load(open(outfile))
with concurrent.futures.ThreadPoolExecutor(jobs) as ex:
    for seed, res in ex.map(one, seeds):
        matrix.setdefault(seed, {}).update(res)
        json.dump(matrix, open(outfile, "w"), indent=1, sort_keys=True)
        print(seed, {c: r["rc"] for c, r in res.items()}, flush=True)
