#!/usr/bin/env python3
"""hand-written mechanism mutations (DESIGN section 9): tools/mutate.py <name> prints a patch for /repo's HEAD; tools/mutate.py --list"""
import subprocess, sys, tempfile, os
M = {
 "no-sort": ("internal/fsm/fsm.go", "\tsortTransitions(s, map[*State]bool{})\n", ""),
 "merge-prepend": ("internal/matcher/context.go", "\t\tpc.Opts[k] = append(pc.Opts[k], vs...)\n", "\t\tpc.Opts[k] = append(append([]string{}, vs...), pc.Opts[k]...)\n"),
 "merge-prepend-args": ("internal/matcher/context.go", "\t\tpc.Args[k] = append(pc.Args[k], vs...)\n", "\t\tpc.Args[k] = append(append([]string{}, vs...), pc.Args[k]...)\n"),
 "ro-not-copied": ("internal/fsm/fsm.go", "\t\tfresh.RejectOptions = pc.RejectOptions\n", ""),
 "long-empty-value": ("internal/matcher/option.go", "\t\tvalue := kv[1]\n\t\tif value == \"\" {\n\t\t\treturn false, 0, args\n\t\t}\n", "\t\tvalue := kv[1]\n"),
 "no-clear": ("internal/fsm/fsm.go", "\t\t\tmultiValued.Clear()\n", "\t\t\t_ = multiValued\n"),
 "sbu-early": ("internal/fsm/fsm.go", "\tfor con, vs := range containers {\n", "\tfor con, vs := range containers {\n\t\tif con.ValueSetByUser != nil {\n\t\t\t*con.ValueSetByUser = len(vs) >= 0\n\t\t}\n"),
 "sbu-env": ("options.go", "\topt.ValueSetFromEnv = values.SetFromEnv(opt.Value, opt.EnvVar)\n", "\topt.ValueSetFromEnv = values.SetFromEnv(opt.Value, opt.EnvVar)\n\tif opt.ValueSetFromEnv && opt.ValueSetByUser != nil {\n\t\t*opt.ValueSetByUser = true\n\t}\n"),
 "panic-policy-falls": ("commands.go", "\tcase flag.PanicOnError:\n\t\tpanic(err)\n", "\tcase flag.PanicOnError:\n\t\tif c.parents != nil {\n\t\t\tpanic(err)\n\t\t}\n"),
 "help-ignores-dd": ("commands.go", "\t\tif arg == \"--\" {\n\t\t\treturn -1\n\t\t}\n", ""),
 "alias-first-only": ("commands.go", "\tfor _, alias := range c.aliases {\n\t\tif arg == alias {\n\t\t\treturn true\n\t\t}\n\t}\n\treturn false\n", "\treturn arg == c.name\n"),
 "dup-first-name": ("options.go", "\tfor _, name := range opt.Names {\n\t\tif _, found := c.optionsIdx[name]; found {\n", "\tfor i, name := range opt.Names {\n\t\tif _, found := c.optionsIdx[name]; found && i == 0 {\n"),
 "help-no-aliases": ("commands.go", "strings.Join(c.aliases, \", \"), c.desc)", "c.name, c.desc)"),
 "options-only-with-args": ("commands.go", "\t\tif len(c.options) > 0 {\n\t\t\tc.Spec = \"[OPTIONS] \"\n", "\t\tif len(c.options) > 0 && len(c.args) > 0 {\n\t\t\tc.Spec = \"[OPTIONS] \"\n"),
 "upper-underscore": ("internal/lexer/lexer.go", "\treturn c >= 'A' && c <= 'Z'\n", "\treturn c >= 'A' && c <= 'Z' || c == '_'\n"),
 "parseint-base0": ("internal/values/values.go", "\ti, err := strconv.ParseInt(s, 10, 64)\n\tif err != nil {\n\t\treturn err\n\t}\n\t*ia = IntValue(int(i))", "\ti, err := strconv.ParseInt(s, 0, 64)\n\tif err != nil {\n\t\treturn err\n\t}\n\t*ia = IntValue(int(i))"),
 "idle-key-no-ro": ("internal/fsm/fsm.go", "\t\tif v.state == s && v.rejectOptions == pc.RejectOptions {\n", "\t\tif v.state == s {\n"),
 "arg-accepts-dash": ("internal/matcher/arg.go", "\tif !c.RejectOptions && strings.HasPrefix(args[0], \"-\") && args[0] != \"-\" {\n", "\tif !c.RejectOptions && strings.HasPrefix(args[0], \"--\") {\n"),
 "before-error-newout": ("commands.go", "\t\tDo:     c.Before,\n\t\tError:  outFlow,\n", "\t\tDo:     c.Before,\n\t\tError:  nil,\n"),
 "env-order-last": ("internal/values/utils.go", "\t\t\t\tif err := into.Set(v); err == nil {\n\t\t\t\t\treturn true\n\t\t\t\t}\n\t\t\t\tcontinue\n", "\t\t\t\tif err := into.Set(v); err == nil {\n\t\t\t\t\tdefer func() {}()\n\t\t\t\t}\n\t\t\t\tcontinue\n"),
 "version-anywhere": ("commands.go", "\targ := args[0]\n\tfor _, searchArg := range searchSet {\n\t\tif arg == searchArg {\n\t\t\treturn true\n\t\t}\n\t}\n\treturn false\n", "\tfor _, arg := range args {\n\t\tfor _, searchArg := range searchSet {\n\t\t\tif arg == searchArg {\n\t\t\t\treturn true\n\t\t\t}\n\t\t}\n\t}\n\treturn false\n"),
}
if sys.argv[1] == "--list":
    print(" ".join(M))
    sys.exit(0)
f, old, new = M[sys.argv[1]]
src = open(os.path.join("/repo", f)).read()
if src.count(old) < 1:
    sys.exit("pattern not found for " + sys.argv[1])
d = tempfile.mkdtemp()
a, b = os.path.join(d, "a"), os.path.join(d, "b")
os.makedirs(os.path.dirname(os.path.join(a, f)))
os.makedirs(os.path.dirname(os.path.join(b, f)))
open(os.path.join(a, f), "w").write(src)
open(os.path.join(b, f), "w").write(src.replace(old, new, 1))
p = subprocess.run(["diff", "-u", "a/" + f, "b/" + f], cwd=d, capture_output=True, text=True)
sys.stdout.write(p.stdout)
