#!/bin/bash
# for every seeded change of the sampled checks, run its own quick check with several VERIF_SEED values
cd /verif
for s in "$@"; do
 for d in seeded/C02-* seeded/C09-* seeded/C10-* seeded/C11-* seeded/C12-* seeded/C15-* seeded/C16-* seeded/C17-* seeded/C03-* seeded/C13-*; do
  id=$(basename $d); p=${id%-*}
  out=$(VERIF_SEED=$s tools/seedtest.sh $PWD/$d/patch.diff $p | head -1)
  echo "seed=$s $id $out"
 done
done
