#!/bin/bash
# usage: tools/mutrun.sh <mutation name> <property id>...  (see tools/mutate.py --list)
name="$1"; shift
export GOFLAGS=-mod=mod GOPROXY=off GOSUMDB=off GOTOOLCHAIN=local
pf=$(mktemp /tmp/mut.XXXXXX.diff)
python3 /verif/tools/mutate.py "$name" > "$pf" || exit 2
wt=$(mktemp -d /tmp/mutwt.XXXXXX); rmdir "$wt"
git -C /repo worktree add -q --detach "$wt" HEAD || exit 2
( cd "$wt" && git apply "$pf" ) || { echo "patch does not apply"; git -C /repo worktree remove --force "$wt"; exit 2; }
b=$(cd "$wt" && go build ./... 2>&1 | tail -1)
suite=$(cd "$wt" && go test -vet=off -count=1 ./... 2>&1 | grep -c '^FAIL\s')
echo "## $name: build=[$b] suite_failures=$suite"
ev=$(mktemp -d /tmp/mutev.XXXXXX)
for p in "$@"; do
  cd /verif && VERIF_REPO="$wt" VERIF_EVIDENCE_DIR="$ev" VERIF_REPLAY_DIR="$ev" ./check "$p" > /tmp/mutrun.$p.log 2>&1; rc=$?
  echo "   $p rc=$rc $(grep -c '^VIOLATION' /tmp/mutrun.$p.log) violations; $(grep -A1 '^VIOLATION' /tmp/mutrun.$p.log | sed -n 2p | cut -c1-230)$(grep '^BROKEN' /tmp/mutrun.$p.log | head -1 | cut -c1-200) $(grep -c '^NOTE' /tmp/mutrun.$p.log) notes"
done
git -C /repo worktree remove --force "$wt"; rm -rf "$ev" "$pf"
