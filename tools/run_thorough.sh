#!/bin/sh
# runs the thorough tier of the given checks one after another (evidence and replays go to ./thorough-out)
mkdir -p thorough-out
export VERIF_EVIDENCE_DIR=$PWD/thorough-out VERIF_REPLAY_DIR=$PWD/thorough-out
for p in "$@"; do
  start=$(date +%s)
  ./check $p --tier thorough > thorough-out/$p.log 2>&1; rc=$?
  echo "$p rc=$rc $(( $(date +%s) - start ))s $(tail -1 thorough-out/$p.log)"
done
