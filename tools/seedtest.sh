#!/bin/sh
# usage: tools/seedtest.sh <patch.diff> <property id>... : apply the patch to a scratch worktree of /repo (outside /repo and /verif),
# run the quick checks against it (VERIF_REPO), remove the worktree. /repo itself and /verif/evidence are not touched.
patch="$1"; shift
wt=$(mktemp -d /tmp/seedwt.XXXXXX); rmdir "$wt"
# a change whose target code was replaced later carries "obsolete_after" and "base" in its meta.json: it is run against that commit
base=HEAD
meta="$(dirname "$patch")/meta.json"
if [ -f "$meta" ] && grep -q obsolete_after "$meta"; then base=$(python3 -c "import json,sys; print(json.load(open(sys.argv[1]))['base'])" "$meta"); fi
git -C /repo worktree add -q --detach "$wt" $base || exit 2
( cd "$wt" && git apply "$patch" ) || { echo "patch does not apply"; git -C /repo worktree remove --force "$wt"; exit 2; }
ev=$(mktemp -d /tmp/seedev.XXXXXX)
for p in "$@"; do
  log="$ev/seedtest.$p.log"
  cd ${VERIF_HOME:-/verif} && VERIF_REPO="$wt" VERIF_EVIDENCE_DIR="$ev" VERIF_REPLAY_DIR="$ev" ./check "$p" ${TIER:+--tier $TIER} > "$log" 2>&1; rc=$?
  echo "== $p rc=$rc $(grep -c '^VIOLATION' "$log") violation lines"; grep -A1 '^VIOLATION' "$log" | head -6; grep '^BROKEN' "$log" | head -3
done
git -C /repo worktree remove --force "$wt"; rm -rf "$ev"
