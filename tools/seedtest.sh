#!/bin/sh
# usage: tools/seedtest.sh <patch.diff> <property id>... : apply the patch to /repo, run the quick checks, undo
patch="$1"; shift
cd /repo || exit 2
if [ -n "$(git status --porcelain)" ]; then echo "/repo not clean"; exit 2; fi
git apply "$patch" || { echo "patch does not apply"; exit 2; }
for p in "$@"; do
  cd /verif && ./check "$p" ${TIER:+--tier $TIER} > /tmp/seedtest.$p.log 2>&1; rc=$?
  echo "== $p rc=$rc $(grep -c '^VIOLATION' /tmp/seedtest.$p.log) violation lines"; grep -A1 '^VIOLATION' /tmp/seedtest.$p.log | head -6; grep '^BROKEN' /tmp/seedtest.$p.log | head -3
done
cd /repo && git checkout -- . && git clean -fdq -e nothing >/dev/null; git status --porcelain
