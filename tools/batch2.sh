#!/bin/bash
# usage: tools/batch2.sh <property id> <variantA> <variantB>: test and archive the two second-batch changes of /tmp/wt/out2/<id>
p=$1; a=$2; b=$3; OUT=${OUT:-/tmp/wt/out2}
for pair in "A $a" "B $b"; do set -- $pair; x=$1; t=$2
  echo "### $p/$x -> $p-$t"
  /verif/tools/seedtest.sh $OUT/$p/$x.patch.diff $p | head -3 | cut -c1-260
  /verif/tools/confirm_seed.sh $OUT/$p $p $x $t | tail -1
  if [ -d /verif/seeded/$p-$t ]; then python3 - "$p" "$t" <<'PY'
import json,os,re,sys
pid,x=sys.argv[1],sys.argv[2]
p='/verif/seeded/%s-%s'%(pid,x)
files=sorted(set(re.findall(r'^\+\+\+ b/(\S+)', open(os.path.join(p,'patch.diff')).read(), re.M)))
meta={"property":pid,"variant":x,"files_changed":files,"base":"8c7f6d6",
      "needs_to_manifest":"see notes.md (written by the sub-agent that produced the change, from the property text alone)",
      "produced_by":"second batch: fresh sub-agent given only the property text and a scratch worktree of /repo at 8c7f6d6 (batch: " + os.environ.get("OUT", "out2") + ")",
      "confirmed":{"how":"tools/confirm_seed.sh in a scratch worktree under /tmp (removed afterwards)","builds":True,
                   "existing_suite_passes_with_change":True,"demo_passes_without_change":True,"demo_fails_with_change":True},
      "demo":"demo_test.go (package in its first line)"}
json.dump(meta,open(os.path.join(p,'meta.json'),'w'),indent=1)
PY
  fi
done
