"""Engine OpModel: the implementation-shaped model of compile + simplify + backtracking search, explored by TLC step by step
on (spec, env, argv) cases; checked against RefSemantics and for termination; its verdicts/bindings are also compared with
the real library (a disagreement with a property-level agreement is drift, not a violation)."""
import json, os
from . import core, specgen as g, refenum


def run(workdir, specs, alphabet, envsets, maxlen, cfg="OpModelFixed", timeout=3000, prog=None):
    prog = prog or g.STD_PROG
    inp = {"prog": g.prog_tla(prog), "specs": [{"cst": g.to_cst(s["ast"]), "ast": s["ast"]} for s in specs],
           "alphabet": [list(t) for t in alphabet], "envsets": [list(e) for e in envsets], "maxlen": maxlen}
    with open(os.path.join(workdir, "opmodel.json"), "w") as f:
        json.dump(inp, f)
    res = core.run_tlc(workdir, "OpModel", cfg=cfg, timeout=timeout)
    cases = []
    for p in set(res.printed("OP")):
        o = json.loads(p)
        cases.append({"si": o["si"], "env": sorted(o["env"]), "argv": ["".join(t) for t in o["argv"]], "accepted": o["accepted"], "steps": o["steps"],
                      "binds": frozenset((e["kind"] + ":" + e["name"], tuple("".join(v) for v in e["vals"])) for e in o["binds"])})
    cases.sort(key=lambda c: (c["si"], c["env"], len(c["argv"]), c["argv"]))
    return res, cases
