"""Engine OpModel: the implementation-shaped model of compile + simplify + backtracking search, explored by TLC step by step
on (spec, env, argv) cases; checked against RefSemantics and for termination; its verdicts/bindings are also compared with
the real library (a disagreement with a property-level agreement is drift, not a violation)."""
import json, os
from . import core, specgen as g, refenum


def run(workdir, specs, alphabet, envsets, maxlen, cfg="OpModelFixed", timeout=3000, prog=None):
    prog = prog or g.STD_PROG
    inp = {"prog": g.prog_tla(prog), "specs": [{"cst": g.to_cst(s["ast"]), "ast": s["ast"]} for s in specs],
           "alphabet": [list(t) for t in alphabet], "envsets": [list(e) for e in envsets], "maxlen": maxlen}
    with open(os.path.join(workdir, "opmodel.json"), "w") as f:
        json.dump(inp, f)
    res = core.run_tlc(workdir, "OpModel", cfg=cfg, timeout=timeout)
    cases = []
    for p in set(res.printed("OP")):
        o = json.loads(p)
        cases.append({"si": o["si"], "env": sorted(o["env"]), "argv": ["".join(t) for t in o["argv"]], "accepted": o["accepted"], "steps": o["steps"],
                      "hist": [(h["s"], tuple("".join(t) for t in h["args"]), h["ro"]) for h in o["hist"]], "graph": o["graph"] or None,
                      "binds": frozenset((e["kind"] + ":" + e["name"], tuple("".join(v) for v in e["vals"])) for e in o["binds"])})
    cases.sort(key=lambda c: (c["si"], c["env"], len(c["argv"]), c["argv"]))
    return res, cases


def dfs_numbering(graph):
    """the numbering verif_export.go: verifStates gives the states of the real automaton: depth-first from the root, transitions in order.
    Returns {model state id (1-based) -> dump id (0-based)}"""
    ids, order = {}, []

    def visit(s):
        stack = [s]
        # recursive DFS in transition order (iterative to be safe)
        def rec(x):
            if x in ids:
                return
            ids[x] = len(order)
            order.append(x)
            for t in graph["tr"][x - 1]:
                rec(t["n"])
        rec(s)
    import sys
    sys.setrecursionlimit(10000)
    visit(graph["root"])
    return ids


def model_label(t):
    if t["k"] == "arg":
        return "A:" + t["a"]
    if t["k"] == "opt":
        return "O:" + t["a"]
    if t["k"] == "grp":
        return "G:" + ",".join(t["xs"])
    if t["k"] == "end":
        return "E"
    return "?" + t["k"]


def same_automaton(graph, dump):
    """is the model's prepared automaton the real one, state by state and transition by transition (after the DFS renumbering)?
    dump: the harness's VerifAutomaton with labels as produced by vlib/structeq.label"""
    ids = dfs_numbering(graph)
    if len(ids) != len(dump["term"]):
        return "model has %d reachable states, the library %d" % (len(ids), len(dump["term"]))
    for m, d in ids.items():
        if graph["term"][m - 1] != dump["term"][d]:
            return "terminal flag of state %d differs" % d
        mt = [(model_label(t), ids[t["n"]]) for t in graph["tr"][m - 1]]
        dt = [(t["l"], t["n"]) for t in dump["trans"][d]]
        if mt != dt:
            return "transitions of state %d: model %s, library %s" % (d, mt, dt)
    return None


def compare_history(case, graph, events):
    """None if the library's search made exactly the Matcher.Match calls the model's search makes: for every call of apply that
    reaches its matchers (model history), one call per transition of that state, in order, with the same arguments and flag.
    (Transition objects are shared between states after simplify, so a recorded call does not identify its state: the comparison
    is on the flattened sequence of (matcher label, arguments, options-ended flag).)"""
    from . import structeq
    want = []
    for st, args, ro in case["hist"]:
        for t in graph["tr"][st - 1]:
            want.append((model_label(t), args, ro))
    got = [(structeq.label(ev["l"]), tuple(ev["args"]), ev["ro"]) for ev in events]
    if want == got:
        return None
    k = next((i for i, (a, b) in enumerate(zip(want, got)) if a != b), min(len(want), len(got)))
    return "matcher call %d: model %s, library %s (model %d calls, library %d)" % (k, want[k] if k < len(want) else None, got[k] if k < len(got) else None, len(want), len(got))
