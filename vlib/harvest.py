"""Binding B on the repository's own test-suite: with the hooks on (-tags verif) and VERIF_TRACE set, every Cmd.parse level of
every test run is recorded (spec, declarations, own tokens, verdict). The records are validated against RefSemantics by TLC."""
import json, os, subprocess
from . import core, specgen as g, specparse


def record(workdir):
    trace = os.path.join(workdir, "harvest.ndjson")
    env = dict(core.GOENV, VERIF_TRACE=trace)
    p = subprocess.run(["go", "test", "-tags", "verif", "-vet=off", "-count=1", "."], cwd=core.REPO, env=env, capture_output=True, text=True, timeout=1200)
    if not os.path.exists(trace):
        raise core.Broken("the repository's tests wrote no trace (hooks missing?):\n" + (p.stdout + p.stderr)[-1500:])
    evs = []
    with open(trace) as f:
        for l in f.read().split("\n"):
            if l:
                evs.append(json.loads(l))
    recs = {}
    for k, e in enumerate(evs):
        if e["ev"] != "level" or e["help"] >= 0 or k + 1 >= len(evs):
            continue
        nxt = evs[k + 1]
        if nxt["ev"] not in ("accept", "reject") or nxt["path"] != e["path"]:
            continue
        # fsm.Parse fails either because the search found no derivation ("incorrect usage") or, after a successful match, because
        # a value did not convert. Only the first kind is a rejection in the sense of C01; a failure with another message is left
        # out (if the wording of the message ever changes, the rejected records are lost, not misread)
        if nxt["ev"] == "reject" and nxt.get("err") != "incorrect usage":
            continue
        key = (e["spec"], json.dumps(e["opts"]), json.dumps(e["argdecls"]), tuple(e["argv"][:e["nargs"]]))
        recs[key] = nxt["ev"] == "accept"
    return len(evs), recs, p.returncode


def level_events(workdir):
    """all "level" events of the recorded test run, de-duplicated, ASCII only (they go through TLC)"""
    trace = os.path.join(workdir, "harvest.ndjson")
    out, seen = [], set()
    with open(trace) as f:
        for l in f.read().split("\n"):
            if not l:
                continue
            e = json.loads(l)
            if e["ev"] != "level":
                continue
            o = {"argv": e["argv"], "subs": e["subs"], "nargs": e["nargs"], "help": e["help"]}
            k = json.dumps(o)
            if k in seen or not k.isascii():
                continue
            seen.add(k)
            out.append(o)
    return out


def validate_levels(rep, workdir):
    evs = level_events(workdir)
    if not evs:
        return 0, []
    with open(os.path.join(workdir, "leveltrace.json"), "w") as f:
        json.dump(evs, f)
    res = core.run_tlc(workdir, "LevelTrace", timeout=1200)
    core.tlc_must_finish(res, "LevelTrace")
    rep.add_tlc(res)
    bad = [evs[json.loads(p)["ei"]] for p in set(res.printed("LT"))]
    return len(evs), bad


def to_cases(recs):
    """-> progs, specs (ast,str,prog), groups (rel single), recorded verdicts, skipped (unparsable)"""
    progs, pidx, specs, sidx, groups, verdicts, skipped = [], {}, [], {}, [], [], []
    for (spec, opts, args, argv), acc in sorted(recs.items(), key=lambda kv: (kv[0][0], kv[0][3])):
        o, a = json.loads(opts), json.loads(args)
        prog = {"opts": [{"names": " ".join(n.lstrip("-") for n in d["names"]), "flag": d["bool"]} for d in o], "args": [d["names"][0] for d in a]}
        pk = json.dumps(prog)
        if pk not in pidx:
            pidx[pk] = len(progs)
            progs.append(prog)
        sk = (pk, spec)
        if sk not in sidx:
            try:
                ast = specparse.parse(spec, prog)
            except Exception as ex:
                skipped.append((spec, str(ex)))
                continue
            if not g.wellformed(ast):
                skipped.append((spec, "option after --"))
                continue
            sidx[sk] = len(specs)
            specs.append({"ast": ast, "str": spec, "prog": pidx[pk]})
        env = [g.opt_key(" ".join(n.lstrip("-") for n in d["names"])) for d in o if d["fromenv"]]
        groups.append({"rel": "single", "members": [{"si": sidx[sk], "env": env, "argv": list(argv)}]})
        verdicts.append(acc)
    return progs, specs, groups, verdicts, skipped
