"""Spec families: ASTs of the reference semantics (tla/RefSemantics.tla), rendered to spec strings.

This is case generation only (no oracle): TLC evaluates the AST, the real library compiles the string,
and StructEq proves per family member that the automaton compiled from the string is language-equal to
the AST's regular expression, so a rendering mistake here shows up as a StructEq mismatch, not as a
wrong verdict.
"""
import itertools, random

# ---- programs ----
STD_PROG = {"opts": [{"names": "a aa", "flag": True}, {"names": "b", "flag": True},
                     {"names": "o out", "flag": False}, {"names": "e", "flag": False}],
            "args": ["X", "Y"]}


# a second program: a long-only flag, a valued option with three names, names with digits and underscores
PROG2 = {"opts": [{"names": "verbose", "flag": True}, {"names": "s src source", "flag": False}, {"names": "q", "flag": True}],
         "args": ["SRC1", "DST_2"]}


def opt_key(names):
    n = names.split()[0]
    return ("-" if len(n) == 1 else "--") + n


def prog_tla(p):
    """the record CmdLine.tla expects"""
    short, long_, flags = {}, {}, []
    for o in p["opts"]:
        k = opt_key(o["names"])
        for n in o["names"].split():
            if len(n) == 1:
                short[n] = k
            else:
                long_["--" + n] = k
        if o["flag"]:
            flags.append(k)
    return {"short": short, "long": long_, "flags": flags, "keys": [opt_key(o["names"]) for o in p["opts"]],
            "args": list(p["args"])}


def names_of(p, key):
    for o in p["opts"]:
        if opt_key(o["names"]) == key:
            return [("-" if len(n) == 1 else "--") + n for n in o["names"].split()]
    raise KeyError(key)


def is_flag(p, key):
    for o in p["opts"]:
        if opt_key(o["names"]) == key:
            return o["flag"]
    raise KeyError(key)


# ---- AST constructors (field shapes are uniform for TLC) ----
def Arg(a): return {"k": "arg", "a": a, "xs": []}
def Opt(o): return {"k": "opt", "a": o, "xs": []}
def Grp(keys, all_=False): return {"k": "grp", "a": "OPTIONS" if all_ else "", "xs": list(keys)}
def End(): return {"k": "end", "a": "", "xs": []}
def Seq(*xs): return {"k": "seq", "a": "", "xs": list(xs)}
def Alt(*xs): return {"k": "alt", "a": "", "xs": list(xs)}
def Optional(e): return {"k": "optional", "a": "", "xs": [e]}
def Rep(e): return {"k": "rep", "a": "", "xs": [e]}


def walk(e):
    yield e
    if e["k"] in ("seq", "alt", "optional", "rep"):
        for x in e["xs"]:
            for y in walk(x):
                yield y


def has(e, kind): return any(n["k"] == kind for n in walk(e))


def leaves_in_order(e):
    return [n for n in walk(e) if n["k"] in ("arg", "opt", "grp", "end")]


def wellformed(e):
    """no option element textually after a spec-level --"""
    seen_end = False
    for n in leaves_in_order(e):
        if n["k"] == "end":
            seen_end = True
        elif n["k"] in ("opt", "grp") and seen_end:
            return False
    return True


# ---- rendering ----
def is_atom(e): return e["k"] in ("arg", "opt", "grp", "optional") or (e["k"] == "rep")


def render(p, e, rnd=None, top=True):
    """spec string for AST e. rnd (random.Random) picks among equivalent spellings."""
    k = e["k"]
    pick = (lambda xs: xs[0]) if rnd is None else rnd.choice
    if k == "arg":
        return e["a"]
    if k == "opt":
        name = pick(names_of(p, e["a"]))
        if not is_flag(p, e["a"]) and rnd is not None and rnd.random() < 0.3:
            name += "=<v>"
        return name
    if k == "grp":
        if e["a"] == "OPTIONS":
            return "OPTIONS"
        return "-" + "".join(key[1:] for key in e["xs"])
    if k == "end":
        return "--"
    if k == "seq":
        if len(e["xs"]) == 0:
            return "" if top else None
        s = " ".join(render(p, x, rnd, False) for x in e["xs"])
        return s if top else "(" + s + ")"
    if k == "alt":
        parts = []
        for x in e["xs"]:
            parts.append(render(p, x, rnd, False))
        return "(" + pick([" | ", "|"]).join(parts) + ")"
    if k == "optional":
        x = e["xs"][0]
        inner = render(p, x, rnd, True) if x["k"] == "seq" else render(p, x, rnd, False)
        if x["k"] == "alt":
            inner = inner[1:-1]
        return "[" + inner + "]"
    if k == "rep":
        x = e["xs"][0]
        inner = render(p, x, rnd, False)
        if x["k"] in ("end", "rep"):
            inner = "(" + inner + ")"
        return inner + "..."
    raise ValueError(k)


# ---- generation ----
def std_atoms(p):
    keys = [opt_key(o["names"]) for o in p["opts"]]
    shorts = [k for k in keys if len(k) == 2]
    atoms = [Arg(a) for a in p["args"]] + [Opt(k) for k in keys]
    atoms.append(Grp(keys, all_=True))
    if len(shorts) >= 2:
        atoms.append(Grp(shorts[:2]))
        atoms.append(Grp([shorts[-1], shorts[0]]))
    return atoms


def random_ast(p, rnd, depth, allow_end=True):
    atoms = std_atoms(p)
    def gen(d):
        r = rnd.random()
        if d <= 0 or r < 0.38:
            if allow_end and rnd.random() < 0.08:
                return End()
            return dict(rnd.choice(atoms))
        if r < 0.55:
            return Seq(*[gen(d - 1) for _ in range(rnd.choice([2, 2, 3]))])
        if r < 0.68:
            return Alt(*[gen(d - 1) for _ in range(2)])
        if r < 0.86:
            return Optional(gen(d - 1))
        return Rep(gen(d - 1))
    for _ in range(1000):
        xs = [gen(depth - 1) for _ in range(rnd.choice([1, 1, 2, 2, 3]))]
        e = Seq(*xs)
        if wellformed(e) and len(leaves_in_order(e)) <= 6:
            return e
    return Seq(Arg(p["args"][0]))


def curated(p=STD_PROG):
    """hand-picked shapes (standard program): every operator nesting that found a defect in the pinned tree"""
    A, B, O, E = Opt("-a"), Opt("-b"), Opt("-o"), Opt("-e")
    X, Y = Arg("X"), Arg("Y")
    ALL = Grp(["-a", "-b", "-o", "-e"], all_=True)
    AB = Grp(["-a", "-b"])
    AO = Grp(["-a", "-o"])
    return [
        Seq(X), Seq(Rep(X), Y), Seq(Optional(A), X), Seq(Optional(AB), A),
        Seq(Optional(ALL), O, X), Seq(Optional(Rep(E)), X), Seq(Alt(A, X), Optional(Seq(End(), Y))),
        Seq(Rep(Seq(E, Optional(X), End()))), Seq(Rep(Optional(Rep(Optional(X))))),
        Seq(Rep(Alt(A, X))), Seq(Rep(Seq(End()))), Seq(Optional(ALL), Rep(X)), Seq(ALL), Seq(AB), Seq(AO, X),
        Seq(Optional(ALL), X, Optional(Y)), Seq(Rep(Optional(AB))), Seq(Rep(Seq(Optional(Rep(X)), Y))),
        Seq(Optional(A), End(), Rep(X)), Seq(X, End(), Rep(Y)), Seq(Rep(Alt(O, X))), Seq(A, B), Seq(Rep(A), X),
        Seq(Optional(Seq(O, Optional(X))), Y), Seq(Alt(Seq(A, X), Seq(B, Y))), Seq(Rep(O)), Seq(Optional(Rep(O)), Rep(X)),
        Seq(Alt(X, Seq(X, Y))), Seq(Rep(X), Rep(Y)), Seq(Optional(X), Optional(Y)), Seq(E, X), Seq(Optional(E), Optional(A), X),
        Seq(Rep(Alt(E, X)), O), Seq(Optional(AB), Optional(O), Rep(X)), Seq(Optional(Seq(A, B)), X),
        Seq(Alt(Rep(X), AB)), Seq(Optional(End()), Rep(X)), Seq(Rep(Seq(X, Optional(End())))),
        # explicitly ordered option elements: every matcher scans past the others' occurrences
        Seq(Optional(Rep(A)), Optional(O)), Seq(Rep(Optional(A)), O), Seq(Rep(A), O), Seq(Optional(B), Optional(A), Optional(O)),
        Seq(Optional(B), Optional(A), O), Seq(Optional(B), Optional(Seq(A, O))), Seq(A, O), Seq(A, O, X), Seq(O, A, Optional(B), Rep(X)),
        Seq(Optional(E), Optional(O), Optional(B), Optional(A)), Seq(O, Optional(A), E, A), Seq(O, Optional(A), E, Alt(A, B)),
        Seq(E, Optional(B), O, B, Optional(X)), Seq(Optional(AB), Optional(E)), Seq(Optional(Grp(["-e", "-b"])), Rep(X)), Seq(Rep(Alt(A, B, O))), Seq(Rep(O), Rep(A), Optional(X)),
    ]


def curated2():
    V, S, Q = Opt("--verbose"), Opt("-s"), Opt("-q")
    A, B = Arg("SRC1"), Arg("DST_2")
    ALL = Grp(["--verbose", "-s", "-q"], all_=True)
    return [Seq(Optional(V), Optional(S), A, Rep(B)), Seq(Optional(ALL), A), Seq(Grp(["-q", "-s"]), A), Seq(Rep(Alt(V, Q)), B),
            Seq(Optional(Rep(S)), Optional(A)), Seq(V, S, Q), Seq(Optional(Seq(S, V)), Rep(A), B), Seq(Optional(ALL), End(), Rep(A)),
            Seq(Rep(Optional(ALL)), Optional(A)), Seq(Alt(Seq(Q, A), Seq(S, B)))]


def family(p, n_random, seed, depth=3, with_end=True, want=None):
    """curated + n_random random specs; distinct by rendered string. Returns list of dict(ast,str)."""
    rnd = random.Random(seed)
    out, seen = [], set()
    cand = list(curated(p)) if p == STD_PROG else (curated2() if p == PROG2 else [])
    tries = 0
    while len(out) < len(cand) + n_random and tries < 100000:
        if tries < len(cand):
            e = cand[tries]
        else:
            e = random_ast(p, rnd, depth, with_end)
        tries += 1
        if want is not None and not want(e):
            continue
        s = render(p, e, rnd if tries > len(cand) else None)
        if s in seen:
            continue
        seen.add(s)
        out.append({"ast": e, "str": s})
    return out


# ---- sentences ----
def sample_items(p, e, rnd, vals=("v", "w2", "u"), poss=("x", "y", "z1")):
    """a random sentence of the AST as an item sequence (see vlib/groups.py): mostly accepted inputs.
    The reference semantics, not this sampler, says whether it is accepted."""
    k = e["k"]
    if k == "arg":
        return [("pos", rnd.choice(poss))]
    if k == "opt":
        return [("occ", e["a"], None if is_flag(p, e["a"]) else rnd.choice(vals))]
    if k == "grp":
        n = rnd.choice([1, 1, 2, 3])
        out = []
        for _ in range(n):
            key = rnd.choice(e["xs"])
            out.append(("occ", key, None if is_flag(p, key) else rnd.choice(vals)))
        return out
    if k == "end":
        return [("marker",)] if rnd.random() < 0.5 else []
    if k == "seq":
        out = []
        for x in e["xs"]:
            out += sample_items(p, x, rnd, vals, poss)
        return out
    if k == "alt":
        return sample_items(p, rnd.choice(e["xs"]), rnd, vals, poss)
    if k == "optional":
        return sample_items(p, e["xs"][0], rnd, vals, poss) if rnd.random() < 0.6 else []
    if k == "rep":
        out = []
        for _ in range(rnd.choice([1, 1, 2, 3])):
            out += sample_items(p, e["xs"][0], rnd, vals, poss)
        return out
    raise ValueError(k)


def perturb(p, items, rnd):
    """a near miss: drop, duplicate, swap or add one item"""
    items = list(items)
    keys = [opt_key(o["names"]) for o in p["opts"]]
    r = rnd.random()
    if items and r < 0.25:
        del items[rnd.randrange(len(items))]
    elif items and r < 0.45:
        i = rnd.randrange(len(items))
        items.insert(i, items[i])
    elif len(items) >= 2 and r < 0.7:
        i = rnd.randrange(len(items) - 1)
        items[i], items[i + 1] = items[i + 1], items[i]
    else:
        new = ("pos", "x")
        if keys and rnd.random() < 0.5:
            key = rnd.choice(keys)
            new = ("occ", key, None if is_flag(p, key) else "v")
        items.insert(rnd.randrange(len(items) + 1), new)
    return items


def render_items(items, p=None):
    """the plain rendering of an item sequence: first name, separate value"""
    out = []
    for it in items:
        if it[0] == "pos":
            out.append(it[1])
        elif it[0] == "marker":
            out.append("--")
        else:
            out.append(it[1])
            if it[2] is not None:
                out.append(it[2])
    return out


def marker_ok(items):
    """no occurrence after a marker (it would be a positional, not an occurrence)"""
    seen = False
    for it in items:
        if it[0] == "marker":
            seen = True
        elif it[0] == "occ" and seen:
            return False
    return True


def shuffle_runs(items, rnd):
    """options adjacent on the command line may come in any order: shuffle every maximal run of occurrences"""
    out, run = [], []
    for it in list(items) + [None]:
        if it is not None and it[0] == "occ":
            run.append(it)
        else:
            rnd.shuffle(run)
            out += run
            run = []
            if it is not None:
                out.append(it)
    return out


# ---- the parser's own structure (for tla/OpModel.tla): Seq = [Choice..], Choice = [Atom..], Atom = {k,a,xs,body,rep} ----
def _atom(k, a="", xs=(), body=(), rep=False):
    return {"k": k, "a": a, "xs": list(xs), "body": list(body), "rep": rep}


def to_cst(e):
    """the token structure render() produces for AST e, as internal/parser sees it (must mirror render exactly)"""
    assert e["k"] == "seq"
    return [_choice_of(x) for x in e["xs"]]


def _choice_of(x):
    """a top-level element of a sequence is one choice; an alt is rendered parenthesised, i.e. ONE atom"""
    return [_atom_of(x)]


def _atom_of(x):
    k = x["k"]
    if k in ("arg", "opt"):
        return _atom(k, x["a"])
    if k == "grp":
        return _atom("grp", "", x["xs"])
    if k == "end":
        return _atom("end")
    if k == "seq":
        return _atom("par", body=[_choice_of(y) for y in x["xs"]])
    if k == "alt":
        return _atom("par", body=[[_atom_of(y) for y in x["xs"]]])
    if k == "optional":
        y = x["xs"][0]
        if y["k"] == "seq":
            body = [_choice_of(z) for z in y["xs"]]
        elif y["k"] == "alt":
            body = [[_atom_of(z) for z in y["xs"]]]
        else:
            body = [[_atom_of(y)]]
        return _atom("sq", body=body)
    if k == "rep":
        y = x["xs"][0]
        if y["k"] in ("end", "rep"):
            return _atom("par", body=[[_atom_of(y)]], rep=True)
        a = _atom_of(y)
        a["rep"] = True
        return a
    raise ValueError(k)
