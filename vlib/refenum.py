"""Engine RefEnum: TLC enumerates (spec, env, argv) cases of a family and predicts each with
tla/RefSemantics.tla; the harness runs every case on the real library; outcomes are compared here."""
import json, os
from . import core, specgen


def tok(s):
    return list(s)


def make_family(progs, specs, alphabet, envsets, maxlen):
    """specs: list of dict(ast, str, prog=index)."""
    return {"progs": [specgen.prog_tla(p) for p in progs],
            "specs": [{"prog": s.get("prog", 0), "ast": s["ast"], "hasgrp": specgen.has(s["ast"], "grp"),
                       "hasend": specgen.has(s["ast"], "end")} for s in specs],
            "alphabet": [tok(t) for t in alphabet], "envsets": [list(e) for e in envsets], "maxlen": maxlen}


def norm_maps(ms):
    """TLC's acc (list of maps, each a list of [kind,name,vals]) -> set of frozensets"""
    res = set()
    for m in ms:
        res.add(frozenset((e["kind"] + ":" + e["name"], tuple("".join(v) for v in e["vals"])) for e in m))
    return res


def predict(workdir, fam, module="RefEnum", cfg=None, workers=None, timeout=3600):
    """run TLC; returns (TlcResult, list of case dicts {si, env, argv, acc, uncl, accG})"""
    with open(os.path.join(workdir, "family.json"), "w") as f:
        json.dump(fam, f)
    res = core.run_tlc(workdir, module, cfg=cfg, workers=workers, timeout=timeout)
    core.tlc_must_finish(res, module)
    cases = []
    for payload in res.printed("CASE"):
        o = json.loads(payload)
        acc = norm_maps(o["acc"])
        cases.append({"si": o["si"], "env": sorted(o["env"]), "argv": ["".join(t) for t in o["argv"]],
                      "acc": acc, "uncl": o["uncl"], "accG": acc if o["same"] else norm_maps(o["accG"])})
    cases.sort(key=lambda c: (c["si"], c["env"], len(c["argv"]), c["argv"]))
    return res, cases


def observed_map(r):
    """binding map the library produced: per variable the values Set after the last Clear during Run"""
    m = {}
    for var, calls in r.get("log", {}).items():
        vals = []
        for c in calls:
            if c == "C":
                vals = []
            else:
                vals.append(c[2:])
        if vals:
            m[var] = tuple(vals)
    return frozenset(m.items())


def exec_cases(binpath, workdir, progs, specs, cases, deadline_ms=5000):
    pf = os.path.join(workdir, "progs.json")
    with open(pf, "w") as f:
        json.dump(progs, f)
    inp = [{"id": i, "prog": specs[c["si"]].get("prog", 0), "spec": specs[c["si"]]["str"], "env": c["env"], "argv": c["argv"]}
           for i, c in enumerate(cases)]
    return core.run_harness(binpath, "exec", inp, workdir, env={"HARNESS_PROGS": pf}, deadline_ms=deadline_ms)


def classify(case, r):
    """compare one real outcome with the predictions. Returns one of
    ok | unclaimed | known:Dev_GreedyGroup | violation:<why>"""
    if r.get("skipped"):
        return "skipped"
    if r.get("hang") or r.get("crash"):
        why = "hang" if r.get("hang") else "crash " + r["crash"]
        return "violation:" + why
    if r.get("specerr") or r.get("panic"):
        return "violation:unexpected " + ("spec error %s" % r["specerr"] if r.get("specerr") else "panic " + r["panic"])

    def agrees(acc):
        if r["ran"] != bool(acc):
            return False
        return (not r["ran"]) or observed_map(r) in acc
    if agrees(case["acc"]):
        return "ok"
    if case["uncl"]:
        return "unclaimed"
    if case["accG"] != case["acc"] and agrees(case["accG"]):
        return "known:Dev_GreedyGroup"
    if r["ran"] != bool(case["acc"]):
        return "violation:verdict (library %s, reference %s)" % ("accepted" if r["ran"] else "rejected",
                                                                 "accepts" if case["acc"] else "rejects")
    return "violation:bindings %s not among the reference derivations" % sorted(observed_map(r))
