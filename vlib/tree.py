"""Engine CmdTree: command trees (defined here), tla/CmdTree.tla enumerates argument vectors x policies over them and predicts the
outcome of every Run (which command, help / reject / run / version, per-level derivations); the harness runs each on the library."""
import json, os
from . import core, specgen as g, refenum

LEVEL_PROG = {"opts": [{"names": "f force", "flag": True}, {"names": "n", "flag": False}], "args": ["X"]}
F, NN, X = g.Opt("-f"), g.Opt("-n"), g.Arg("X")


H_PROG = {"opts": [{"names": "f force", "flag": True}, {"names": "n", "flag": False}, {"names": "h host", "flag": True}], "args": ["X"]}


def node(names, path, ast, subs=(), action=True, spec=None, prog=None):
    prog = prog or LEVEL_PROG
    s = g.render(prog, ast) if spec is None else spec
    return {"names": names, "path": path, "ast": ast, "spec": s, "subs": list(subs), "action": action, "prog": prog}


def trees():
    t1 = {"version": "", "nodes": [
        node(["app"], "app", g.Seq(g.Optional(F), g.Optional(NN), g.Optional(X)), subs=[1, 3]),
        node(["c1", "k1"], "app c1", g.Seq(g.Optional(F), g.Optional(NN), g.Rep(X)), subs=[2]),
        node(["d1"], "app c1 d1", g.Seq(X)),
        # no spec string: [OPTIONS] X
        node(["c2"], "app c2", g.Seq(g.Optional(g.Grp(["-f", "-n"], all_=True)), X), spec=""),
    ]}
    t2 = {"version": "v version", "nodes": [
        node(["app"], "app", g.Seq(g.Optional(F))),
        ]}
    t2["nodes"][0]["subs"] = [1]
    t2["nodes"] += [
        node(["a1", "aa"], "app a1", g.Seq(X), subs=[2]),
        node(["b1", "bb"], "app a1 b1", g.Seq(g.Optional(F), g.Optional(NN), g.Optional(X)), subs=[3, 4]),
        node(["e1"], "app a1 b1 e1", g.Seq(g.Optional(X))),
        node(["e2", "ee"], "app a1 b1 e2", g.Seq(g.Optional(g.Grp(["-f", "-n"], all_=False)), g.Optional(g.Seq(g.End(), g.Rep(X)))), action=True),
    ]
    # a command without an Action (prints help): modelled, not claimed
    t3 = {"version": "", "nodes": [
        node(["app"], "app", g.Seq(g.Optional(F)), subs=[1], action=False),
        node(["c1"], "app c1", g.Seq(g.Optional(X))),
    ]}
    # an Int option that may repeat, and a command that declares its own -h / --host option (help still wins)
    t4 = {"version": "", "nodes": [
        node(["app"], "app", g.Seq(g.Rep(g.Optional(NN)), g.Optional(g.Opt("-h")), g.Optional(X)), subs=[1], prog=H_PROG),
        node(["get", "g"], "app get", g.Seq(g.Optional(g.Grp(["-f", "-n"], all_=True)), g.Optional(X)), spec="[OPTIONS] [X]"),
    ]}
    # commands that declare nothing: the same application object can be Run several times (a sub command is initialised
    # again on every Run, which panics on the second declaration of an option or argument)
    BARE = {"opts": [], "args": []}
    t5 = {"version": "", "nodes": [
        node(["app"], "app", g.Seq(), subs=[1, 3], prog=BARE, spec=""),
        node(["one", "o1"], "app one", g.Seq(), subs=[2], prog=BARE, spec=""),
        node(["deep"], "app one deep", g.Seq(), prog=BARE, spec=""),
        node(["two"], "app two", g.Seq(), prog=BARE, spec=""),
    ]}
    for n in t5["nodes"]:
        n["bare"] = True
    # a sub command that declares the option the application's version flag is named after (t2: `v version`)
    V_PROG = {"opts": [{"names": "f force", "flag": True}, {"names": "n", "flag": False}, {"names": "v verbose", "flag": True}], "args": ["X"]}
    t2["nodes"][3] = node(["e1"], "app a1 b1 e1", g.Seq(g.Optional(g.Opt("-v")), g.Optional(X)), prog=V_PROG)
    t2["nodes"][1] = node(["a1", "aa"], "app a1", g.Seq(g.Optional(g.Opt("-v")), X), subs=[2], prog=V_PROG)
    # the version flag is an option of the application like any other: its spec may mention it, and only a FIRST-position occurrence
    # is a version request
    VV_PROG = {"opts": [{"names": "f force", "flag": True}, {"names": "n", "flag": False}, {"names": "v version", "flag": True}], "args": ["X"]}
    t6 = {"version": "v version", "nodes": [
        node(["app"], "app", g.Seq(g.Optional(F), g.Optional(g.Opt("-v"))), subs=[1], prog=VV_PROG),
        node(["c1", "k1"], "app c1", g.Seq(g.Optional(F), g.Optional(X))),
    ]}
    return [t1, t2, t3, t4, t5, t6]


def deep_tree(bare=False):
    """six levels, siblings declared after the path command at every level; explored with listed vectors (paths, help tokens).
    bare: commands that declare nothing (so that one application object can be Run several times)"""
    BARE = {"opts": [], "args": []}
    names = [["app"], ["p1", "pp"], ["p2"], ["p3"], ["p4"], ["p5"]]
    nodes = []
    path = ""
    for lvl, al in enumerate(names):
        path = (path + " " + al[0]).strip()
        nodes.append(node(al, path, g.Seq(), subs=[], prog=BARE, spec="") if bare else node(al, path, g.Seq(g.Optional(F), g.Optional(X)), subs=[]))
    # chain + a sibling after each path command
    sib = []
    for lvl in range(1, len(names)):
        parent = lvl - 1
        nodes[parent]["subs"].append(lvl)
        sidx = len(nodes)
        qp = nodes[parent]["path"] + " q%d" % lvl
        nodes.append(node(["q%d" % lvl], qp, g.Seq(), subs=[], prog=BARE, spec="") if bare else node(["q%d" % lvl], qp, g.Seq(g.Optional(X)), subs=[]))
        nodes[parent]["subs"].append(sidx)
    vectors = []
    chain = [n[0] for n in names[1:]]
    for depth in range(0, len(chain) + 1):
        base = chain[:depth]
        for extra in ([], ["-h"], ["--help"], ["x"], ["-f", "-h"], ["--", "-h"], ["x", "-h"], ["-g"]):
            vectors.append(base + extra)
            if depth >= 1:
                vectors.append(base[:-1] + ["q%d" % depth] + extra)
                vectors.append(["pp"] + base[1:] + extra)
        for k in range(depth):
            vectors.append(base[:k] + ["-h"] + base[k:])
            vectors.append(base[:k] + ["-f"] + base[k:] + ["--help"])
    uniq = []
    for v in vectors:
        if v not in uniq:
            uniq.append(v)
    if bare:
        for n in nodes:
            n["bare"] = True
    return {"version": "", "nodes": nodes, "vectors": uniq}


def effective_policy(t, path, root_policy):
    """a command's policy is the one set in its own initialiser, otherwise the one its parent had when it declared it"""
    parent = {}
    for i, n in enumerate(t["nodes"]):
        for s_ in n["subs"]:
            parent[s_] = i
    idx = [i for i, n in enumerate(t["nodes"]) if n["path"] == path][0]
    chain = [idx]
    while chain[-1] in parent:
        chain.append(parent[chain[-1]])
    pol = root_policy
    for i in reversed(chain):
        if t["nodes"][i].get("policy"):
            pol = t["nodes"][i]["policy"]
    return pol


def ints_tree():
    """the Int option -n is multi-valued (IntsOpt) here: every written value must convert, padded numerals do not"""
    nodes = [node(["app"], "app", g.Seq(g.Rep(g.Optional(NN)), g.Optional(X)), subs=[1, 2, 3]),
             node(["c1"], "app c1", g.Seq(g.Rep(g.Optional(NN)))),
             # the option is mandatory here and its environment variable holds nothing a number could be read from: it stays mandatory
             node(["c2"], "app c2", g.Seq(g.Rep(NN))),
             node(["c3"], "app c3", g.Seq(g.Rep(NN), g.Optional(X)))]
    for n in nodes:
        n["intmulti"] = True
    nodes[2]["intenv"] = ","
    nodes[3]["intenv"] = " , zz"
    vectors = []
    for base in ([], ["c1"]):
        for tail in (["-n=7"], ["-n= 7"], ["-n=7 "], ["-n=7", "-n=\t12"], ["-n=12", "-n=7"], ["-n", "7"], ["-n", " 7"], ["-n=zz"], ["-n=7", "-n=zz"], ["-n= "], ["-n=100%"], ["-n=%d%s"]):
            vectors.append(base + tail)
    vectors += [["c2"], ["c2", "-n=7"], ["c3"], ["c3", "x"], ["c3", "-n=12", "x"]]
    vectors += [["-n=0x10"], ["-n=0b11", "c1"], ["-n=1_0", "c1", "-n=7"], ["-n=0o17"], ["c1", "-n=0x7"]]
    return {"version": "", "nodes": nodes, "vectors": vectors}


def blank_tree():
    """the application's name contains blanks (a program path with a space)"""
    root = "my tool"
    nodes = [node([root], root, g.Seq(g.Optional(F), g.Optional(X)), subs=[1]),
             node(["c1", "k1"], root + " c1", g.Seq(g.Optional(X)), subs=[2]),
             node(["d1"], root + " c1 d1", g.Seq(g.Optional(F)))]
    vectors = []
    for base in ([], ["c1"], ["k1", "d1"]):
        for extra in ([], ["-h"], ["--help"], ["x"], ["-g"], ["-f"], ["x", "y", "z"]):
            vectors.append(base + extra)
    return {"version": "", "nodes": nodes, "vectors": vectors, "root": root}


def cluster_tree():
    """levels without positionals: a folded group that ends in the valued option, its value in the next token, then a sub command
    name; a string-valued option -s next to a lone dash; an Int ARGUMENT N"""
    P = {"opts": [{"names": "f force", "flag": True}, {"names": "n", "flag": False}, {"names": "s str", "flag": False}], "args": ["N"]}
    P0 = dict(P, args=[])      # these levels declare no argument at all
    S = g.Opt("-s")
    nodes = [node(["app"], "app", g.Seq(g.Optional(F), g.Optional(NN), g.Optional(S)), subs=[1, 2], prog=P0),
             node(["run", "r"], "app run", g.Seq(g.Optional(F), g.Optional(NN)), prog=P0),
             node(["num"], "app num", g.Seq(g.Optional(S), g.Arg("N"), g.Optional(g.Arg("N"))), prog=P)]
    vectors = [["-fn", "7", "run"], ["-f", "-n", "7", "run"], ["-fn7", "run"], ["-fn=7", "r"], ["-n", "7", "run", "-fn", "12"], ["-fn", "run"], ["-fn", "zz", "run"],
               ["-s", "-"], ["-s", "-", "run"], ["--str", "-", "run"], ["-fs", "-", "run"], ["-s=-", "run"], ["-s", "v", "run"], ["-s-", "run"],
               ["num", "7"], ["num", "zz"], ["num", "7", "zz"], ["num", "--", "-x"], ["num", "--", "7"], ["num", "-s", "v", "12"], ["num", "-s", "-", "12"], ["num"], ["num", "7", "12"],
               ["-g", "run"], ["-g", "num", "7"], ["-h", "run"], ["--bogus", "num"]]
    return {"version": "", "nodes": nodes, "vectors": vectors}


def swap_tree():
    """option occurrences at a level that has sub commands, in both orders, the last one directly in front of the sub command name;
    attached values that end in the letter of a valued option"""
    t = cluster_tree()
    vectors = []
    for a, b in ((["-f"], ["-sfoos"]), (["-f"], ["-smain.n"]), (["-n=7"], ["-sn"]), (["-f"], ["-s", "v"]), (["-fsn"], ["-n", "7"]), (["--str=ss"], ["-f"]),
                 (["-n7"], ["-sfn"]), (["-f"], ["-n12"])):
        for sub in (["run"], ["r", "-f"], ["num", "7"]):
            vectors.append(a + b + sub)
            vectors.append(b + a + sub)
    t["vectors"] = vectors
    return t


def alias_tree():
    """siblings that share an alias (the first declared one answers to it), aliases with capital letters, a level whose spec is a
    choice between an option and a folded group that holds only some of the level's options"""
    P = {"opts": [{"names": "f force", "flag": True}, {"names": "n", "flag": False}, {"names": "s str", "flag": False}], "args": ["N"]}
    P0 = dict(P, args=[])
    S = g.Opt("-s")
    nodes = [node(["app"], "app", g.Seq(g.Optional(F), g.Optional(X)), subs=[1, 2, 3, 4, 5]),
             node(["remove", "rm"], "app remove", g.Seq(X)),
             node(["rmdir", "rm", "rd"], "app rmdir", g.Seq(g.Optional(F), g.Optional(X), g.Optional(X))),
             node(["addAll", "A"], "app addAll", g.Seq(g.Optional(X))),
             node(["build", "b"], "app build", g.Seq(X), subs=[6]),
             node(["alt"], "app alt", g.Alt(S, g.Seq(g.Optional(g.Grp(["-f", "-n"])), g.Arg("N"))), prog=P),
             node(["d1"], "app build d1", g.Seq(g.Optional(F)))]
    vectors = []
    for v in (["rm"], ["rm", "x"], ["rm", "x", "y"], ["rm", "-h"], ["rm", "-f", "x"], ["rd", "x"], ["rmdir"], ["remove", "x"], ["-h", "rm"], ["x", "rm", "y"],
              ["addAll"], ["addall"], ["A", "x"], ["a"], ["ADDALL"], ["Build", "b"], ["build", "x"], ["B", "x"], ["b", "x", "d1"], ["b", "x", "D1"], ["Rm", "x"],
              ["alt", "-s", "v"], ["alt", "-s", "v", "7"], ["alt", "7"], ["alt", "-f", "7"], ["alt", "-fn7", "12"], ["alt", "-f", "-s", "v", "7"], ["alt", "--str=v", "7"],
              ["alt", "-fs", "v", "7"], ["alt", "-s=v", "-f", "7"], ["alt"]):
        vectors.append(v)
    return {"version": "", "nodes": nodes, "vectors": vectors}


def implicit_trees():
    """a command without a spec string that has an argument AND sub commands, with and without an Action of its own, next to its twin
    with the explicit spec `[OPTIONS] X` (C16): four trees, the same listed vectors"""
    ALL = g.Seq(g.Optional(g.Grp(["-f", "-n"], all_=True)), X)
    out = []
    for action in (True, False):
        for spec in ("", "[OPTIONS] X"):
            nodes = [node(["app"], "app", ALL, subs=[1, 2], action=action, spec=spec),
                     node(["show", "sh"], "app show", g.Seq(g.Optional(X))),
                     node(["build"], "app build", g.Seq(g.Optional(F)))]
            vectors = [[], ["x"], ["show"], ["show", "show"], ["x", "show"], ["-f", "show"], ["-f", "x", "show", "y"], ["show", "x"], ["x", "y"], ["build", "build"],
                       ["-f", "build", "build"], ["build"], ["x", "build", "-f"], ["sh", "sh"], ["-n=7", "x", "sh"], ["--", "show"], ["--", "show", "show"]]
            out.append({"version": "", "nodes": nodes, "vectors": vectors})
    return out


def respec_tree():
    """the application declares an option and an argument, its sub commands declare nothing (so the object can run twice); the
    earlier runs happen under ANOTHER spec string of the application (`prespec`)"""
    BARE = {"opts": [], "args": []}
    nodes = [node(["app"], "app", g.Seq(g.Optional(F), X), subs=[1]),
             node(["check", "ck"], "app check", g.Seq(), subs=[2], prog=BARE, spec=""),
             node(["deep"], "app check deep", g.Seq(), prog=BARE, spec="")]
    for n in nodes[1:]:
        n["bare"] = True
    vectors = [["x", "check", "deep"], ["x", "y", "check", "deep"], ["-f", "x", "ck"], ["check"], ["x"], ["x", "y"], ["-f", "x", "y", "check"], ["x", "check", "bogus"]]
    return {"version": "", "nodes": nodes, "vectors": vectors, "prespec": "X X"}


def late_tree():
    """declaration-free commands; `late` is added to the application after earlier runs"""
    BARE = {"opts": [], "args": []}
    nodes = [node(["app"], "app", g.Seq(), subs=[1, 2], prog=BARE, spec=""),
             node(["early", "ea"], "app early", g.Seq(), prog=BARE, spec=""),
             node(["late", "lt"], "app late", g.Seq(), subs=[3], prog=BARE, spec=""),
             node(["inner"], "app late inner", g.Seq(), prog=BARE, spec="")]
    for n in nodes:
        n["bare"] = True
    nodes[2]["late"] = True
    vectors = [[], ["early"], ["ea"], ["late"], ["lt"], ["late", "inner"], ["lt", "inner"], ["late", "x"], ["early", "late"], ["late", "-h"], ["lt", "inner", "--help"]]
    return {"version": "", "nodes": nodes, "vectors": vectors}


def hidden_tree():
    """declaration-free commands (re-runnable); a hidden command with a child is declared BEFORE its visible siblings"""
    BARE = {"opts": [], "args": []}
    nodes = [node(["app"], "app", g.Seq(), subs=[1, 3, 4], prog=BARE, spec=""),
             node(["secret", "sc"], "app secret", g.Seq(), subs=[2], prog=BARE, spec=""),
             node(["deep"], "app secret deep", g.Seq(), prog=BARE, spec=""),
             node(["open"], "app open", g.Seq(), prog=BARE, spec=""),
             node(["other", "ot"], "app other", g.Seq(), subs=[5], prog=BARE, spec=""),
             node(["leaf"], "app other leaf", g.Seq(), prog=BARE, spec="")]
    for n in nodes:
        n["bare"] = True
    nodes[1]["hidden"] = True
    vectors = []
    for base in ([], ["secret"], ["sc"], ["secret", "deep"], ["open"], ["other"], ["ot", "leaf"]):
        for extra in ([], ["-h"], ["--help"], ["x"], ["-g"]):
            vectors.append(base + extra)
    return {"version": "", "nodes": nodes, "vectors": vectors}


def dash_tree():
    """sub commands whose names are spelled like options"""
    nodes = [node(["app"], "app", g.Seq(g.Optional(F), g.Optional(X)), subs=[1, 3]),
             node(["--list", "-l"], "app --list", g.Seq(g.Optional(F), g.Optional(X)), subs=[2]),
             node(["--prune"], "app --list --prune", g.Seq(g.Optional(X))),
             node(["c1"], "app c1", g.Seq(g.Optional(X)))]
    vectors = []
    for base in ([], ["--list"], ["-l"], ["--list", "--prune"], ["-l", "--prune"], ["c1"], ["-f", "--list"], ["-f", "-l", "--prune"]):
        for extra in ([], ["-h"], ["--help"], ["x"], ["-f"], ["x", "-h"], ["-g"], ["--", "-l"]):
            vectors.append(base + extra)
    vectors += [["-h", "--list"], ["--help", "-l", "--prune"], ["x", "--list", "-h"]]
    return {"version": "", "nodes": nodes, "vectors": vectors}


def policy_tree():
    """commands that set their own error policy in their initialiser: the policy of the REJECTING command decides"""
    nodes = [node(["app"], "app", g.Seq(g.Optional(F)), subs=[1, 3]),
             node(["c1"], "app c1", g.Seq(g.Optional(F), g.Optional(X)), subs=[2]),
             node(["d1"], "app c1 d1", g.Seq(X)),
             node(["c2"], "app c2", g.Seq(g.Optional(X)), subs=[4]),
             node(["e1"], "app c2 e1", g.Seq(g.Optional(F)))]
    nodes[1]["policy"] = "continue"
    nodes[2]["policy"] = "panic"
    nodes[3]["policy"] = "exit"
    nodes[4]["policy"] = "continue"
    vectors = []
    for base in ([], ["c1"], ["c1", "d1"], ["c2"], ["c2", "e1"], ["-f", "c1"], ["c1", "x", "d1"]):
        for extra in ([], ["x"], ["-g"], ["x", "y"], ["-f"], ["-f", "x", "zz"], ["-h"]):
            vectors.append(base + extra)
    return {"version": "", "nodes": nodes, "vectors": vectors}


NAME_POOL = [["c1", "k1"], ["c2"], ["d1"], ["a1", "aa"], ["b1", "bb"], ["e1"], ["e2", "ee"], ["get", "g"], ["one", "o1"], ["deep"], ["two"]]


def random_trees(rnd, n, depth=3):
    """random command trees over the name pool of the fixed ones (so that one alphabet serves all)"""
    level_specs = [g.Seq(), g.Seq(g.Optional(F)), g.Seq(X), g.Seq(g.Optional(F), g.Optional(NN), g.Optional(X)), g.Seq(g.Optional(F), g.Rep(X)),
                   g.Seq(g.Optional(g.Grp(["-f", "-n"], all_=True)), g.Optional(X)), g.Seq(g.Optional(X), g.Optional(g.Seq(g.End(), g.Rep(X))))]
    out = []
    for _ in range(n):
        nodes = []

        def mk(names, path, d):
            idx = len(nodes)
            ast = rnd.choice(level_specs)
            # an empty spec STRING means "no spec" (C16): the empty spec is written as one blank
            nodes.append(node(names, path, ast, subs=[], spec=" " if not ast["xs"] else None))
            if d > 0:
                pool = list(NAME_POOL)
                rnd.shuffle(pool)
                for al in pool[: rnd.choice([0, 1, 2, 3] if d < depth else [1, 2, 3])]:
                    ci = mk(al, path + " " + al[0], d - 1)
                    nodes[idx]["subs"].append(ci)
            return idx
        mk(["app"], "app", depth)
        out.append({"version": rnd.choice(["", "", "V"]), "nodes": nodes})
    return out


def tla_input(trs, alphabet, maxlen, policies):
    out = []
    for t in trs:
        nodes = []
        for n in t["nodes"]:
            nodes.append({"names": n["names"], "path": n["path"], "prog": g.prog_tla(n["prog"]), "ast": n["ast"],
                          "hasgrp": g.has(n["ast"], "grp"), "hasend": g.has(n["ast"], "end"), "subs": [i + 1 for i in n["subs"]], "action": n["action"], "policy": n.get("policy", "")})
        ver = []
        if t["version"]:
            ver = [("-" if len(x) == 1 else "--") + x for x in t["version"].split()]
        out.append({"nodes": nodes, "version": ver, "vectors": [[list(tok) for tok in v] for v in t.get("vectors", [])]})
    return {"trees": out, "alphabet": [list(t) for t in alphabet], "maxlen": maxlen, "policies": list(policies), "validints": ["7", "12"]}


def harness_case(t, policy, argv, prerun=()):
    nodes = []
    for n in t["nodes"]:
        nodes.append({"names": n["names"], "path": n["path"], "spec": n["spec"], "opts": [o for o in n["prog"]["opts"] if o["names"] != "n"], "intopt": "n",
                      "args": list(n["prog"]["args"]), "subs": n["subs"], "action": n["action"], "bare": n.get("bare", False), "hidden": n.get("hidden", False), "policy": n.get("policy", ""), "late": n.get("late", False), "intmulti": n.get("intmulti", False), "intenv": n.get("intenv", "")})
    return {"nodes": nodes, "version": t["version"], "policy": policy, "argv": argv, "prerun": [list(p) for p in prerun],
            "prespec": t.get("prespec") if prerun else None}


def predict(workdir, trs, alphabet, maxlen, policies, timeout=3000):
    with open(os.path.join(workdir, "trees.json"), "w") as f:
        json.dump(tla_input(trs, alphabet, maxlen, policies), f)
    res = core.run_tlc(workdir, "CmdTree", timeout=timeout)
    core.tlc_must_finish(res, "CmdTree")
    cases = []
    for p in set(res.printed("TREE")):
        o = json.loads(p)
        o["argv"] = ["".join(t) for t in o["argv"]]
        for lv in o["levels"]:
            lv["acc"] = refenum.norm_maps(lv["acc"])
        cases.append(o)
    per = sum(len(alphabet) ** k for k in range(maxlen + 1))
    n = len(policies) * sum(len(t["vectors"]) if t.get("vectors") else per for t in trs)
    if len(cases) != n:
        raise core.Broken("CmdTree emitted %d cases of %d" % (len(cases), n))
    cases.sort(key=lambda c: (c["ti"], c["policy"], len(c["argv"]), c["argv"]))
    return res, cases


def strip_int(m, path=""):
    """the Int option is a built-in variable, and the application's version flag is the library's own: neither is recorded"""
    return frozenset((k, v) for k, v in m if k not in ("O:-n", "A:N") and not (path == "app" and k == "O:-v"))


def expected_log(path, root="app"):
    """the application's name may contain blanks; command names do not"""
    parts = [root] + [x for x in path[len(root):].split(" ") if x]
    paths = [" ".join(parts[:i + 1]) for i in range(len(parts))]
    return ["B:" + p for p in paths] + ["ACT:" + path] + ["A:" + p for p in reversed(paths)]


def judge(c, r):
    """compare one library run with the specification's outcome. Returns list of (clause, text) disagreements;
    clause in routing | policy | help | bindings"""
    out = []
    if r.get("hang") or r.get("crash"):
        return [("routing", "hang/crash %s" % r)]
    kind, path, pol = c["kind"], c["path"], c.get("npolicy") or c["policy"]    # npolicy: CmdTree.tla's policy of the acting command
    if kind == "run":
        if r["log"] != expected_log(path, c.get("root", "app")):
            out.append(("routing", "hooks/actions ran %s, specification says %s" % (r["log"], expected_log(path, c.get("root", "app")))))
        for lv in c["levels"]:
            obs = frozenset((k, tuple(v)) for k, v in r["binds"].get(lv["path"], {}).items())
            if obs not in set(strip_int(m, lv["path"]) for m in lv["acc"]):
                out.append(("bindings", "level %r bound %s, not a derivation of its own tokens (%s)" % (lv["path"], sorted(obs), [sorted(strip_int(m)) for m in lv["acc"]][:3])))
        if not r["retnil"] or r["exits"] or r.get("panic"):
            out.append(("policy", "an accepted invocation must return nil without exit/panic: err=%r exits=%s panic=%r" % (r.get("err"), r["exits"], r.get("panic"))))
        if r["errors"]:
            out.append(("policy", "accepted invocation wrote %s" % r["errors"]))
        return out
    if r["log"]:
        out.append(("routing" if kind != "help" else "help", "%s: nothing may run, but %s ran" % (kind, r["log"])))
    if kind == "reject":
        if r.get("panic") and not r["panic"].startswith("error:"):
            out.append(("routing", "a rejected invocation must end in a usage error, Run panicked with %r" % r["panic"]))
        if not r["errors"]:
            out.append(("policy", "rejection wrote no Error line"))
        else:
            # the error that is returned (ContinueOnError) or panicked with (PanicOnError) is the one that was written, verbatim
            msg = r.get("err") if pol == "continue" else (r["panic"][len("error:"):] if pol == "panic" and (r.get("panic") or "").startswith("error:") else None)
            if msg and ("Error: " + msg) not in r["errors"]:
                out.append(("policy", "the error written is %r, the error of the rejection is %r" % (r["errors"][:1], msg)))
        if not any(u == "Usage: " + path or u.startswith("Usage: " + path + " ") for u in r["usages"]) or (r["usages"] and r["usages"][0].split(" COMMAND")[0] != r["usages"][0].split(" COMMAND")[0]):
            out.append(("policy", "rejection must print the usage of %r, printed %s" % (path, r["usages"])))
        elif not r["usages"][0].startswith("Usage: " + path):
            out.append(("policy", "rejection must print the usage of %r first, printed %s" % (path, r["usages"])))
        if pol == "continue" and (r["retnil"] or r["exits"] or r.get("panic")):
            out.append(("policy", "ContinueOnError must return the error: err=%r exits=%s panic=%r" % (r.get("err"), r["exits"], r.get("panic"))))
        if pol == "exit" and r["exits"] != [2]:
            out.append(("policy", "ExitOnError must exit once with 2: exits=%s err=%r" % (r["exits"], r.get("err"))))
        if pol == "panic" and not (r.get("panic", "").startswith("error:") and not r["exits"]):
            out.append(("policy", "PanicOnError must panic with the error: panic=%r exits=%s" % (r.get("panic"), r["exits"])))
    elif kind == "help":
        if not r["usages"] or not (r["usages"][0] == "Usage: " + path or r["usages"][0].startswith("Usage: " + path + " ")):
            out.append(("help", "help must show 'Usage: %s', printed %s" % (path, r["usages"])))
        if ("LONG:" + path) not in r["descs"]:
            out.append(("help", "help must use the long description of %r: %s" % (path, r["descs"])))
        if r["errors"]:
            out.append(("help", "help request validated arguments: %s" % r["errors"]))
        if pol == "exit":
            if r["exits"] != [0]:
                out.append(("help", "ExitOnError: help must exit once with 0: exits=%s" % r["exits"]))
        elif not r["retnil"] or r["exits"] or r.get("panic"):
            out.append(("help", "help must return nil: err=%r exits=%s panic=%r" % (r.get("err"), r["exits"], r.get("panic"))))
    elif kind == "version":
        if not r["version"]:
            out.append(("help", "version string not printed"))
        if pol == "exit":
            if r["exits"] != [0]:
                out.append(("help", "ExitOnError: version must exit once with 0: exits=%s" % r["exits"]))
        elif not r["retnil"] or r["exits"] or r.get("panic"):
            out.append(("help", "version must return nil: err=%r exits=%s panic=%r" % (r.get("err"), r["exits"], r.get("panic"))))
    return out
