"""Engine Values: one variable from declaration to the end of Run. Cases are generated here (abstract space x
concrete types), tla/Values.tla runs its step machine on each (clean and with the listed deviation on), checks the
closed-form properties on the clean machine and prints the predictions; the harness executes the concrete cases."""
import itertools, json, os
from . import core

BUILTIN = ["bool", "string", "int", "float", "strings", "ints", "floats"]
MULTI = {"strings", "ints", "floats"}
VALID = {"int": ["41", "8589934592", "010", "12", "0099", "-3", "+8", "0", "-9223372036854775808"],
         "float": ["2.5", "1e3", "-0.5", "7", ".25", "1e-2", "3.", "64"],
         "bool": ["true", "false", "1", "T", "FALSE", "0", "t", "F"],
         "string": ["alpha", "--", " pad ", "-g", "d=e", "be ta", "Zeta", "x,y", "7"],
         "custom": ["t1", "t2", "t3", "t4", "t5", "t6", "t7", "t8"]}
INVALID = {"int": ["zz", "0x10", "0b11", "1_0"], "float": ["1.2.3", "x1", "1e", "--2"], "bool": ["maybe", "yes", "tRuE", "2"],
           "custom": ["bad", "bad2", "bad3", "bad4"]}
DEFAULTS = {"bool": [False, True], "string": ["dflt", ""], "int": [5, 0], "float": [1.5, 0.0],
            "strings": [["d1", "d2"], []], "ints": [[3, 4], []], "floats": [[0.5, 8.0], []]}


def base(t):
    return {"strings": "string", "ints": "int", "floats": "float"}.get(t, t)


class Tok:
    """allocates distinct concrete tokens for abstract ids"""
    def __init__(self, typ):
        self.typ, self.nv, self.ni = base(typ), 0, 0

    def valid(self):
        pool = VALID[self.typ]
        t = pool[self.nv % len(pool)]
        self.nv += 1
        return t

    def invalid(self):
        pool = INVALID[self.typ]
        t = pool[self.ni % len(pool)]
        self.ni += 1
        return t


def env_patterns(maxn):
    out = []
    for n in range(maxn + 1):
        out += list(itertools.product(["unset", "empty", "valid", "invalid"], repeat=n))
    return out


def cli_patterns(maxn, with_invalid):
    kinds = ["valid", "invalid"] if with_invalid else ["valid"]
    out = []
    for n in range(maxn + 1):
        out += list(itertools.product(kinds, repeat=n))
    return out


def deliver_opt(tokens, typ, rnd, bool_like):
    argv = []
    for t in tokens:
        forms = [["-o=" + t], ["--opt=" + t]]
        if not bool_like and t and not t.startswith("-"):
            forms += [["-o", t], ["--opt", t]]
            if not t.startswith("="):
                forms.append(["-o" + t])
        if bool_like and t == "true":
            forms += [["-o"], ["--opt"]]
        argv += rnd.choice(forms)
    return argv


def deliver_arg(tokens):
    if any(t.startswith("-") and t != "-" for t in tokens):
        return ["--"] + list(tokens)
    return list(tokens)


def concrete(typ, role, ptr, default, envpat, clipat, rnd, custom=None, tag=""):
    """one concrete case + its abstraction for Values.tla"""
    multi = typ in MULTI or bool(custom and custom["multi"])
    bool_like = typ == "bool" or bool(custom and custom["bool"])
    tk = Tok(typ)
    string_like = base(typ) == "string"
    envs, aenvs = [], []
    for i, st in enumerate(envpat):
        name = "VERIF_V%d%s" % (i, tag)
        if st in ("unset", "empty"):
            envs.append({"name": name, "state": st, "value": ""})
            aenvs.append({"state": st, "elems": []})
            continue
        if multi:
            elems = [tk.valid(), tk.valid()]
            oks = [True, True]
            if st == "invalid":
                elems[1] = tk.invalid()
                oks[1] = False
            if string_like or typ == "custom":
                elems = [e.strip().replace(",", ";") for e in elems]
            raw = " %s ,%s" % (elems[0], elems[1]) if i % 2 == 0 else "%s, %s " % (elems[0], elems[1])
            if st == "invalid" and not (string_like or typ == "custom") and rnd.random() < 0.2:
                # nothing but separators: two empty elements, invalid for numbers
                elems, oks, raw_sep = ["", ""], [False, False], rnd.choice([",", " , "])
            else:
                raw_sep = None
            # a list that ends in a comma has an empty last element: one more (empty) string, or an invalid number
            if raw_sep is None and rnd.random() < 0.25 and ((string_like or typ == "custom") and st == "valid" or not (string_like or typ == "custom") and st == "invalid" and typ != "custom"):
                if not (string_like or typ == "custom"):
                    elems[1], oks[1] = tk.valid(), True
                elems, oks = elems + [""], oks + [string_like or typ == "custom"]
                raw = "%s,%s," % (elems[0], elems[1])
            if raw_sep is not None:
                raw = raw_sep
        else:
            elems = [tk.valid() if st == "valid" else tk.invalid()]
            if st == "valid" and (string_like or typ == "custom") and rnd.random() < 0.3:
                elems = ["hello, world"]      # a comma means nothing for a single-valued variable
            if st == "invalid" and typ in ("int", "float", "bool") and rnd.random() < 0.5:
                # a comma, or blanks around the value: invalid for a single-valued number or bool (only list elements are trimmed)
                elems = [rnd.choice([{"int": "1,2", "float": "1,5", "bool": "false,true"}[typ], {"int": " 8080", "float": "2.5 ", "bool": " true"}[typ]])]
            if st == "valid" and string_like and rnd.random() < 0.2:
                elems = [rnd.choice([" padded ", "  ", "\ttab"])]      # kept as they are
            oks = [st == "valid"]
            raw = elems[0]
        envs.append({"name": name, "state": "set", "value": raw})
        aenvs.append({"state": "set", "elems": [{"id": e, "ok": ok} for e, ok in zip(elems, oks)]})
    cli, acli = [], []
    for k in clipat:
        t = tk.valid() if k == "valid" else tk.invalid()
        if role == "opt" and bool_like and k == "valid" and typ == "custom":
            t = "true" if rnd.random() < 0.5 else t
        cli.append(t)
        acli.append({"id": t, "ok": k == "valid"})
    if role == "opt":
        argv = deliver_opt(cli, typ, rnd, bool_like)
        spec = "[-o]..."
    else:
        argv = deliver_arg(cli)
        spec = "[A...]"
        if argv and argv[0] == "--" and cli[0] != "--" and rnd.random() < 0.5:
            # the spec ends the options itself (a first token -- would still be read as the marker: then the marker stays on the line)
            argv = argv[1:]
            spec = "-- [A...]"
    case = {"type": typ, "role": role, "ptr": ptr, "default": default, "envs": envs, "cli": cli, "argv": argv, "spec": spec}
    if custom:
        case["custom"] = custom
    abstract = {"multi": multi, "envs": aenvs, "cli": acli}
    return case, abstract


def _ascii_ids(abstracts):
    """token ids handed to TLC are plain ASCII names (t0, t1, ..): TLC re-encodes non-ASCII strings when states spill to disk,
    which once turned 'éè' into other characters on the way back (false alarm in the thorough tier of C13)"""
    out, maps = [], []
    for a in abstracts:
        m, back = {}, {}

        def tid(x):
            if x not in m:
                m[x] = "t%d" % len(m)
                back[m[x]] = x
            return m[x]
        b = {"multi": a["multi"],
             "envs": [{"state": e["state"], "elems": [{"id": tid(t["id"]), "ok": t["ok"]} for t in e["elems"]]} for e in a["envs"]],
             "cli": [{"id": tid(t["id"]), "ok": t["ok"]} for t in a["cli"]]}
        out.append(b)
        maps.append(back)
    return out, maps


def _back(o, back):
    def tr(call):
        for pre in ("S!:", "S:"):
            if call.startswith(pre):
                return pre + back.get(call[len(pre):], call[len(pre):])
        return call
    o["val"] = [back.get(x, x) for x in o["val"]]
    o["envlog"] = [tr(c) for c in o["envlog"]]
    o["filllog"] = [tr(c) for c in o["filllog"]]
    return o


def predict(workdir, abstracts, timeout=1800):
    abstracts, maps = _ascii_ids(abstracts)
    with open(os.path.join(workdir, "valcases.json"), "w") as f:
        json.dump(abstracts, f)
    res = core.run_tlc(workdir, "Values", timeout=timeout)
    core.tlc_must_finish(res, "Values")
    clean, dev = {}, {}
    for payload in set(res.printed("VAL")):
        o = json.loads(payload)
        (dev if o["dev"] else clean)[o["ci"]] = o
    if len(clean) != len(abstracts) or len(dev) != len(abstracts):
        raise core.Broken("Values.tla emitted %d/%d predictions for %d cases" % (len(clean), len(dev), len(abstracts)))
    return res, [_back(clean[i], maps[i]) for i in range(len(abstracts))], [_back(dev[i], maps[i]) for i in range(len(abstracts))]


def canon_default(typ, d):
    if typ == "bool":
        return ["true" if d else "false"]
    if typ == "string":
        return [d]
    if typ == "int":
        return [str(int(d))]
    if typ == "float":
        return [fmt_float(d)]
    if typ == "strings":
        return list(d)
    if typ == "ints":
        return [str(int(x)) for x in d]
    if typ == "floats":
        return [fmt_float(x) for x in d]
    return []


def fmt_float(x):
    # Go's FormatFloat(x,'g',-1,64) for the defaults used here
    s = repr(float(x))
    if s.endswith(".0"):
        s = s[:-2]
    return s


def expected_value(case, pred, result):
    """the model's value (token ids) rendered the way the harness renders the variable, using strconv's parse of each token"""
    if pred["val"] == ["default"]:
        return canon_default(case["type"], case["default"])
    out = []
    for tid in pred["val"]:
        c = result["canon"].get(tid)
        out.append(c["val"] if c else tid)
    return out
