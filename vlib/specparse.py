"""Spec string -> AST of tla/RefSemantics.tla, for spec strings that were not generated from an AST (harvested from the
repository's own tests). An independent reading of the grammar; StructEq validates every result against the automaton the real
parser compiled for the same string, so a mistake here cannot turn into a wrong verdict unnoticed."""
import re
from . import specgen as g

TOK = re.compile(r"\s+|(\.\.\.)|(--[A-Za-z0-9_][A-Za-z0-9_-]*)|(--)|(-[A-Za-z]+)|(=<[^>]+>)|([A-Z][A-Z0-9_]*)|([\[\]()|])")


class SpecSyntax(Exception):
    pass


def tokenize(s):
    out, pos = [], 0
    while pos < len(s):
        m = TOK.match(s, pos)
        if not m:
            raise SpecSyntax("cannot tokenize at %d" % pos)
        pos = m.end()
        if m.group(0).strip() == "":
            continue
        out.append(m.group(0))
    return out


def parse(spec, prog):
    """prog: specgen-style program. Returns AST (Seq) with option keys = first declared name."""
    keyof = {}
    for o in prog["opts"]:
        k = g.opt_key(o["names"])
        for n in o["names"].split():
            keyof[("-" if len(n) == 1 else "--") + n] = k
    allkeys = [g.opt_key(o["names"]) for o in prog["opts"]]
    toks = tokenize(spec)
    i = [0]

    def peek():
        return toks[i[0]] if i[0] < len(toks) else None

    def seq(closers):
        xs = []
        while peek() is not None and peek() not in closers:
            xs.append(choice())
        return g.Seq(*xs)

    def choice():
        alts = [atom()]
        while peek() == "|":
            i[0] += 1
            alts.append(atom())
        return alts[0] if len(alts) == 1 else g.Alt(*alts)

    def atom():
        t = peek()
        if t is None:
            raise SpecSyntax("unexpected end")
        i[0] += 1
        if t == "--":
            return g.End()
        if t == "(":
            e = seq([")"])
            if peek() != ")":
                raise SpecSyntax("missing )")
            i[0] += 1
            if len(e["xs"]) == 1:
                e = e["xs"][0]
        elif t == "[":
            e = seq(["]"])
            if peek() != "]":
                raise SpecSyntax("missing ]")
            i[0] += 1
            e = g.Optional(e["xs"][0] if len(e["xs"]) == 1 else e)
        elif t == "OPTIONS":
            e = g.Grp(allkeys, all_=True)
        elif t.startswith("--"):
            e = g.Opt(keyof[t])
        elif t.startswith("-"):
            if len(t) == 2:
                e = g.Opt(keyof[t])
            else:
                e = g.Grp([keyof["-" + c] for c in t[1:]])
        elif re.match(r"[A-Z]", t):
            e = g.Arg(t)
        else:
            raise SpecSyntax("unexpected %r" % t)
        if peek() is not None and peek().startswith("=<"):
            i[0] += 1
        if peek() == "...":
            i[0] += 1
            e = g.Rep(e)
        return e
    e = seq([])
    if i[0] != len(toks):
        raise SpecSyntax("trailing %r" % toks[i[0]])
    return e
