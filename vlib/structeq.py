"""Engine StructEq (binding C): the automaton the real parser compiled for each spec string is dumped and TLC proves it
language-equivalent (over matcher labels, for inputs of any length) to the automaton of the spec's AST."""
import json, os
from . import core


def label(l):
    k, names = l["k"], l["names"]
    if k == "arg":
        return "A:" + names[0]
    if k == "opt":
        return "O:" + names[0]
    if k == "end":
        return "E"
    if k == "grp":
        return "G:" + ",".join(names)
    return "?" + k


def check(rep, wd, binpath, progs, specs, label_="structeq", deadline_ms=5000):
    """specs: list of dict(ast, str, prog). Returns list of per-spec verdicts: 'equivalent' | 'error:<msg>' | 'hang' | ('different', path)"""
    sub = os.path.join(wd, label_)
    os.makedirs(sub, exist_ok=True)
    pf = os.path.join(sub, "progs.json")
    with open(pf, "w") as f:
        json.dump(progs, f)
    rs = core.run_harness(binpath, "dump", [{"prog": s.get("prog", 0), "spec": s["str"]} for s in specs], sub, env={"HARNESS_PROGS": pf}, deadline_ms=deadline_ms)
    verdicts = [None] * len(specs)
    dumps, index = [], []
    for i, (s, r) in enumerate(zip(specs, rs)):
        if r.get("skipped"):
            verdicts[i] = "skipped"
        elif r.get("hang") or r.get("crash"):
            verdicts[i] = "hang" if r.get("hang") else "crash:" + r["crash"]
        elif r.get("err"):
            verdicts[i] = "error:" + r["err"]
        else:
            a = r["auto"]
            dumps.append({"ast": s["ast"], "term": a["term"], "trans": [[{"l": label(t["l"]), "n": t["n"]} for t in st] for st in a["trans"]]})
            index.append(i)
    if dumps:
        # TLC stops at the first violated invariant: iterate, removing the offending automaton, so that every difference is reported
        remaining = list(range(len(dumps)))
        for _ in range(25):
            with open(os.path.join(sub, "dumps.json"), "w") as f:
                json.dump([dumps[k] for k in remaining], f)
            res = core.run_tlc(sub, "StructEq", timeout=3000)
            rep.add_tlc(res)
            if res.finished:
                break
            if "SameAcceptance" not in res.violated:
                raise core.Broken("StructEq did not complete:\n" + res.out[-2000:])
            # the counterexample's last state names the automaton (i) and the distinguishing label path
            import re
            m = re.findall(r"/\\ i = (\d+)", res.out)
            pth = re.findall(r"/\\ path = (<<.*?>>)", res.out)
            k = remaining[int(m[-1]) - 1]
            verdicts[index[k]] = ("different", pth[-1] if pth else "?")
            remaining.remove(k)
            if not remaining:
                break
        for k in remaining:
            if verdicts[index[k]] is None:
                verdicts[index[k]] = "equivalent"
    return verdicts
