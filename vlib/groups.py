"""Engine RefGroups: groups of related cases (re-spellings, swaps, marker insertions, environment pairs,
implicit/explicit spec pairs). Generators are here; tla/RefGroups.tla checks that every generated group
stands in the relation its property quantifies over, predicts every member and checks the law on the
reference; the harness runs every member on the real library."""
import itertools, json, os, random
from . import core, specgen, refenum

# ---- items ----
def pos(t): return ("pos", t)
MARKER = ("marker",)
def occ(key, val=None): return ("occ", key, val)


def occ_spellings(p, it):
    """all documented spellings of one occurrence, as token lists; plain short forms are tagged for folding"""
    _, key, val = it
    names = specgen.names_of(p, key)
    shorts = [n for n in names if len(n) == 2]
    longs = [n for n in names if len(n) > 2]
    res = []
    if specgen.is_flag(p, key):
        for s in shorts:
            res.append(([s], ("flag", s[1])))
            res.append(([s + "=true"], None))
        for l in longs:
            res.append(([l], None))
            res.append(([l + "=true"], None))
    else:
        # a value that starts with a dash cannot be written as a separate token (it would read as an option)
        dashy = val.startswith("-")
        for s in shorts:
            if not dashy:
                res.append(([s, val], ("valsep", s[1])))
            res.append(([s + val], ("valatt", s[1])))
            res.append(([s + "=" + val], None))
        for l in longs:
            if not dashy:
                res.append(([l, val], None))
            res.append(([l + "=" + val], None))
    return res


def spellings(p, items, cap=None, rnd=None):
    """all command lines whose item reading is `items` (every spelling of every occurrence x every folding)"""
    per = []
    for it in items:
        if it[0] == "pos":
            per.append([([it[1]], None)])
        elif it[0] == "marker":
            per.append([(["--"], None)])
        else:
            per.append(occ_spellings(p, it))
    lines = set()
    combos = itertools.product(*per)
    if cap is not None:
        total = 1
        for x in per:
            total *= len(x)
        if total > cap * 4:
            combos = (tuple(rnd.choice(x) for x in per) for _ in range(cap * 4))
    for choice in combos:
        # fold adjacent plain-short tokens in every possible way
        for line in foldings(choice):
            lines.add(tuple(line))
        if cap is not None and len(lines) >= cap * 3:
            break
    lines = sorted(lines)
    if cap is not None and len(lines) > cap:
        rnd.shuffle(lines)
        lines = sorted(lines[:cap])
    return [list(l) for l in lines]


def foldings(choice):
    """choice: sequence of (tokens, tag). Yields token lists with runs of foldable occurrences merged:
    any number of plain short flags followed optionally by one plain short valued occurrence."""
    n = len(choice)

    def rec(i):
        if i == n:
            yield []
            return
        toks, tag = choice[i]
        # unfolded
        for rest in rec(i + 1):
            yield toks + rest
        # start a folded token at i (needs >= 2 occurrences)
        if tag and tag[0] == "flag":
            letters = tag[1]
            j = i + 1
            while j < n and choice[j][1] is not None:
                t2, g2 = choice[j]
                if g2[0] == "flag":
                    letters += g2[1]
                    for rest in rec(j + 1):
                        yield ["-" + letters] + rest
                    j += 1
                    continue
                # valued closes the fold
                if g2[0] == "valatt":
                    for rest in rec(j + 1):
                        yield ["-" + letters + t2[0][1:]] + rest
                else:
                    for rest in rec(j + 1):
                        yield ["-" + letters + g2[1], t2[1]] + rest
                break
    return rec(0)


def random_line(p, items, rnd, fold=0.5):
    """one random spelling of the item sequence: a random spelling per occurrence, then (with probability fold)
    a random one of its foldings"""
    choice = []
    for it in items:
        if it[0] == "pos":
            choice.append(([it[1]], None))
        elif it[0] == "marker":
            choice.append((["--"], None))
        else:
            sp = occ_spellings(p, it)
            plain = [x for x in sp if x[1] is not None]
            choice.append(rnd.choice(plain) if plain and rnd.random() < 0.6 else rnd.choice(sp))
    if rnd.random() < fold:
        fs = list(foldings(choice))
        return list(rnd.choice(fs))
    out = []
    for toks, _ in choice:
        out += toks
    return out


def swaps(items):
    """index pairs (i, i+1) of adjacent occurrences of different options"""
    return [i for i in range(len(items) - 1)
            if items[i][0] == "occ" and items[i + 1][0] == "occ" and items[i][1] != items[i + 1][1]]


# ---- running ----
def make_input(progs, specs, groups):
    return {"progs": [specgen.prog_tla(p) for p in progs],
            "specs": [{"prog": s.get("prog", 0), "ast": s["ast"], "hasgrp": specgen.has(s["ast"], "grp"),
                       "hasend": specgen.has(s["ast"], "end")} for s in specs],
            "groups": [{"rel": g["rel"], "members": [{"si": m["si"], "env": list(m["env"]), "argv": [list(t) for t in m["argv"]]}
                                                      for m in g["members"]]} for g in groups]}


def predict(workdir, progs, specs, groups, timeout=4 * 3600):
    with open(os.path.join(workdir, "groups.json"), "w") as f:
        json.dump(make_input(progs, specs, groups), f)
    res = core.run_tlc(workdir, "RefGroups", timeout=timeout)
    core.tlc_must_finish(res, "RefGroups")
    preds = {}
    for payload in res.printed("GROUP"):
        o = json.loads(payload)
        ps = []
        for p in o["preds"]:
            acc = refenum.norm_maps(p["acc"])
            ps.append({"acc": acc, "uncl": p["uncl"], "accG": acc if p["same"] else refenum.norm_maps(p["accG"])})
        preds[o["g"]] = {"rel": o["rel"], "law": o["law"], "preds": ps}
    if len(preds) != len(groups):
        raise core.Broken("TLC emitted %d groups of %d" % (len(preds), len(groups)))
    return res, [preds[i] for i in range(len(groups))]


def execute(binpath, workdir, progs, specs, groups, deadline_ms=5000):
    pf = os.path.join(workdir, "progs.json")
    with open(pf, "w") as f:
        json.dump(progs, f)
    flat, index = [], []
    for gi, g in enumerate(groups):
        for mi, m in enumerate(g["members"]):
            s = specs[m["si"]]
            flat.append(exec_case(len(flat), s, m))
            index.append((gi, mi))
    rs = core.run_harness(binpath, "exec", flat, workdir, env={"HARNESS_PROGS": pf}, deadline_ms=deadline_ms)
    out = [[None] * len(g["members"]) for g in groups]
    for (gi, mi), r in zip(index, rs):
        out[gi][mi] = unhex(r)
    return out


RAWBYTE = "~"    # in a member marked rawbyte, every ~ of the command line is the single byte 0xFF on the library (not valid UTF-8)


def exec_case(cid, s, m):
    c = {"id": cid, "prog": s.get("prog", 0), "spec": s["str"], "env": list(m["env"]), "argv": list(m["argv"]),
         "prerun": [list(x) for x in m.get("prerun", [])]}
    if m.get("posthelp"):
        c["posthelp"] = True
    if m.get("prespec") is not None:
        c["prespec"] = m["prespec"]
    if m.get("rawbyte"):
        c["argv_hex"] = [t.encode().replace(RAWBYTE.encode(), b"\xff").hex() for t in m["argv"]]
    return c


def unhex(r):
    """values logged hex-encoded come back as text with 0xFF as ~ (anything else that is not valid UTF-8 becomes U+FFFD)"""
    for k in ("log", "envlog"):
        for var, calls in (r.get(k) or {}).items():
            r[k][var] = [("S:" + bytes.fromhex(c[4:]).replace(b"\xff", RAWBYTE.encode()).decode("utf-8", "replace")) if c.startswith("S:h:") else c for c in calls]
    return r


def outcome(r, only_opts=False):
    """what the properties compare: did the Action run, and every bound value"""
    if r.get("skipped"):
        return ("skipped", "")
    if r.get("hang") or r.get("crash"):
        return ("dead", r.get("crash", "hang"))
    if r.get("specerr") or r.get("panic"):
        return ("panic", json.dumps(r.get("specerr") or r.get("panic"), sort_keys=True))
    m = refenum.observed_map(r)
    if only_opts:
        m = frozenset((k, v) for k, v in m if k.startswith("O:"))
    return (r["ran"], m)
