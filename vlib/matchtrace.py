"""Binding B at the level of single Matcher.Match calls (tla/MatchTrace.tla over tla/Matchers.tla)."""
import json, os
from . import core, specgen as g


def validate(rep, wd, binpath, progs, specs, members, label="matchtrace", cap=60000):
    """members: list of {si, env, argv}. Runs each with traced matchers; TLC validates every recorded call.
    Returns (number of calls validated, list of mismatch descriptions)."""
    sub = os.path.join(wd, label)
    os.makedirs(sub, exist_ok=True)
    pf = os.path.join(sub, "progs.json")
    with open(pf, "w") as f:
        json.dump(progs, f)
    cases = [{"id": i, "prog": specs[m["si"]].get("prog", 0), "spec": specs[m["si"]]["str"], "env": list(m["env"]), "argv": list(m["argv"])} for i, m in enumerate(members)]
    rs = core.run_harness(binpath, "match", cases, sub, env={"HARNESS_PROGS": pf})
    events, seen, origin = [], set(), []
    for c, r in zip(cases, rs):
        if r.get("skipped") or r.get("hang") or r.get("crash"):
            continue
        for ev in r["events"]:
            l = ev["l"]
            if l["k"] not in ("opt", "grp", "arg", "end"):
                continue
            m = {"k": l["k"], "a": l["names"][0] if l["k"] in ("opt", "arg") else "", "xs": l["names"] if l["k"] == "grp" else []}
            # the decorator sees the context after the call: values recorded by THIS call only (every transition gets a fresh context)
            vals = [{"name": v[0], "vals": [list(x) for x in v[1:]]} for v in (ev["opts"] + ev["argv"]) if len(v) > 1]
            e = {"prog": c["prog"], "env": c["env"], "m": m, "args": [list(t) for t in ev["args"]], "ro": ev["ro"], "ok": ev["ok"],
                 "rem": [list(t) for t in ev["rem"]], "ro2": ev["ro2"], "vals": vals}
            key = json.dumps(e, sort_keys=True)
            if key in seen:
                continue
            seen.add(key)
            events.append(e)
            origin.append(c)
            if len(events) >= cap:
                break
        if len(events) >= cap:
            break
    if not events:
        return 0, []
    with open(os.path.join(sub, "matchtrace.json"), "w") as f:
        json.dump({"progs": [g.prog_tla(p) for p in progs], "events": events}, f)
    res = core.run_tlc(sub, "MatchTrace", timeout=3000)
    core.tlc_must_finish(res, "MatchTrace")
    rep.add_tlc(res)
    bad = []
    for p in set(res.printed("MT")):
        o = json.loads(p)
        e, c = events[o["ei"]], origin[o["ei"]]
        w = o["want"]
        bad.append(("matcher %s%s called with args=%s options-ended=%s (spec %r, env %s): library returned ok=%s rem=%s values=%s, Matchers.tla says ok=%s rem=%s" % (
            e["m"]["k"], " " + (e["m"]["a"] or ",".join(e["m"]["xs"])), ["".join(t) for t in e["args"]], e["ro"], c["spec"], c["env"], e["ok"],
            ["".join(t) for t in e["rem"]], [(v["name"], ["".join(x) for x in v["vals"]]) for v in e["vals"]], w["ok"], ["".join(t) for t in w["rem"]]),
            {"engine": "matchtrace", "case": c}))
    return len(events), bad
