"""Shared machinery of /verif/check: building the harness from /repo's working tree, running TLC,
running the harness with crash/hang attribution, evidence and findings files."""
import json, os, re, shutil, subprocess, sys, tempfile, time, hashlib

VERIF = os.path.dirname(os.path.dirname(os.path.abspath(__file__)))
REPO = os.environ.get("VERIF_REPO", "/repo")
BUILD = os.path.join(VERIF, ".build")
TLA = os.path.join(VERIF, "tla")
GOENV = dict(os.environ, GOFLAGS="-mod=mod", GOPROXY="off", GOSUMDB="off", GOTOOLCHAIN="local", CGO_ENABLED="0")
NCPU = os.cpu_count() or 4


class Broken(Exception):
    """the machinery (not the library) failed: exit 2, never a violation"""


def seed():
    try:
        return int(os.environ.get("VERIF_SEED", "1"))
    except ValueError:
        return 1


def scratch(prefix="vf-"):
    base = os.environ.get("VERIF_SCRATCH", tempfile.gettempdir())
    return tempfile.mkdtemp(prefix=prefix, dir=base)


def build_harness(race=False):
    """(re)build the harness against /repo's current working tree with the hooks on"""
    os.makedirs(BUILD, exist_ok=True)
    hdir = os.path.join(VERIF, "harness")
    tag = ""
    if REPO != "/repo":
        # another copy of the library (seeded-change matrix): build from a scratch copy of the harness whose go.mod points there
        tag = "-" + hashlib.sha1(REPO.encode()).hexdigest()[:8]
        src, hdir = hdir, os.path.join(BUILD, "harness-src" + tag)
        shutil.rmtree(hdir, ignore_errors=True)
        shutil.copytree(src, hdir)
        with open(os.path.join(hdir, "go.mod")) as f:
            mod = f.read().replace("=> /repo", "=> " + REPO)
        with open(os.path.join(hdir, "go.mod"), "w") as f:
            f.write(mod)
    shutil.copyfile(os.path.join(REPO, "go.sum"), os.path.join(hdir, "go.sum"))
    out = os.path.join(BUILD, ("harness-race" if race else "harness") + tag)
    env = dict(GOENV)
    cmd = ["go", "build", "-tags", "verif", "-o", out]
    if race:
        env["CGO_ENABLED"] = "1"
        cmd.insert(2, "-race")
    cmd.append(".")
    p = subprocess.run(cmd, cwd=hdir, env=env, capture_output=True, text=True)
    if p.returncode != 0:
        raise Broken("harness does not build against %s:\n%s" % (REPO, p.stderr[-4000:]))
    return out


# ---------------------------------------------------------------- TLC

class TlcResult:
    def __init__(self, rc, out):
        self.rc, self.out = rc, out
        m = re.findall(r"(\d+) states generated, (\d+) distinct states found", out)
        self.generated, self.distinct = (int(m[-1][0]), int(m[-1][1])) if m else (0, 0)
        self.violated = re.findall(r"Error: Invariant (\S+) is violated", out)
        self.temporal_violated = bool(re.search(r"Temporal propert(y|ies) .*violated", out))
        self.finished = "Model checking completed. No error has been found." in out
        self.error_lines = [l for l in out.splitlines() if l.startswith("Error:")]

    def printed(self, prefix):
        """lines PrintT'ed as strings starting with prefix; returns the decoded payloads"""
        res = []
        tag = '"' + prefix + ' '
        for l in self.out.splitlines():
            if l.startswith(tag):
                s = json.loads(l)
                res.append(s[len(prefix) + 1:])
        return res


def run_tlc(workdir, module, cfg=None, workers=None, timeout=3600, extra=(), files=(), jvm=()):
    """run TLC on tla/<module>.tla inside workdir (a scratch copy of the needed modules)."""
    for f in os.listdir(TLA):
        if f.endswith(".tla") or f.endswith(".cfg"):
            shutil.copyfile(os.path.join(TLA, f), os.path.join(workdir, f))
    for src, name in files:
        shutil.copyfile(src, os.path.join(workdir, name))
    meta = tempfile.mkdtemp(prefix="meta-", dir=workdir)
    cmd = ["timeout", str(timeout), "java", "-XX:+UseParallelGC", "-Xss256m", "-Xmx%dg" % int(os.environ.get("VERIF_TLC_GB", "8")),
           "-Djava.io.tmpdir=" + meta]      # (TLC's own temporary files stay inside the scratch directory)
    cmd += list(jvm)
    cmd += ["-cp", "/opt/veriftools/tla/tla2tools.jar:/opt/veriftools/tla/CommunityModules-deps.jar",
            "tlc2.TLC", "-workers", str(workers or NCPU), "-metadir", meta, "-noGenerateSpecTE", "-maxSetSize", "50000000",
            "-config", (cfg or module) + ".cfg"]
    cmd += list(extra) + [module + ".tla"]
    t0 = time.time()
    p = subprocess.run(cmd, cwd=workdir, capture_output=True, text=True)
    res = TlcResult(p.returncode, p.stdout + p.stderr)
    res.wall = time.time() - t0
    shutil.rmtree(meta, ignore_errors=True)
    if p.returncode == 124:
        raise Broken("TLC timed out after %ds on %s" % (timeout, module))
    return res


def tlc_must_finish(res, what, allow_violation=False):
    """the model checker must complete; a violated invariant of an oracle-level theorem means the
    specification suite is inconsistent, which is a broken machinery, not a verdict"""
    if (res.violated or res.temporal_violated) and not allow_violation:
        raise Broken("TLC reports %s violated in %s:\n%s" % (res.violated or "a temporal property", what, res.out[-3000:]))
    if not res.finished and not res.violated and not res.temporal_violated:
        raise Broken("TLC did not complete on %s (rc=%d):\n%s" % (what, res.rc, res.out[-3000:]))


# ---------------------------------------------------------------- harness

def run_harness(binpath, mode, cases, workdir, env=None, deadline_ms=5000, shards=None, timeout=3600, max_dead=12):
    """run `cases` (list of JSON-able objects) through `harness stream <mode>`, sharded over processes.
    Returns a list aligned with cases: the result object, or {"hang": True} / {"crash": "..."}.
    A shard that has already seen max_dead hangs/crashes stops: its remaining cases are {"skipped": True} (the
    violation is established; hanging cases cost a full deadline each)."""
    shards = shards or min(NCPU, max(1, len(cases) // 200))
    n = len(cases)
    results = [None] * n
    bounds = [(i * n // shards, (i + 1) * n // shards) for i in range(shards)]
    procs = []
    e = dict(os.environ)
    e.update(env or {})
    e["GOTRACEBACK"] = "none"

    def start(k, lo, hi, first):
        inp = os.path.join(workdir, "in-%s-%d.ndjson" % (mode, k))
        outp = os.path.join(workdir, "out-%s-%d.ndjson" % (mode, k))
        if first:
            with open(inp, "w") as f:
                for c in cases[lo:hi]:
                    f.write(json.dumps(c) + "\n")
            if os.path.exists(outp):
                os.remove(outp)
        return outp

    def launch(k, startidx):
        inp = os.path.join(workdir, "in-%s-%d.ndjson" % (mode, k))
        outp = os.path.join(workdir, "out-%s-%d.ndjson" % (mode, k))
        return subprocess.Popen([binpath, "stream", mode, inp, outp, str(startidx), str(deadline_ms)],
                                env=e, stdout=subprocess.DEVNULL, stderr=subprocess.PIPE)

    state = []
    for k, (lo, hi) in enumerate(bounds):
        start(k, lo, hi, True)
        state.append({"k": k, "lo": lo, "hi": hi, "proc": launch(k, 0) if hi > lo else None, "restarts": 0})
    t0 = time.time()
    pending = [s for s in state if s["proc"] is not None]
    while pending:
        for s in list(pending):
            try:
                _, err = s["proc"].communicate(timeout=0.2)
            except subprocess.TimeoutExpired:
                if time.time() - t0 > timeout:
                    s["proc"].kill()
                    raise Broken("harness shard timed out")
                continue
            rc = s["proc"].returncode
            outp = os.path.join(workdir, "out-%s-%d.ndjson" % (mode, s["k"]))
            done = 0
            if os.path.exists(outp):
                with open(outp) as f:
                    lines = [l for l in f.read().split("\n") if l]
                for l in lines:
                    try:
                        o = json.loads(l)
                    except ValueError:
                        continue
                    idx = o["idx"]
                    if o.get("hang"):
                        results[s["lo"] + idx] = {"hang": True}
                    elif "harness_error" in o:
                        raise Broken("harness error: %s" % o["harness_error"])
                    else:
                        results[s["lo"] + idx] = o["res"]
                    done = max(done, idx + 1)
            if done >= s["hi"] - s["lo"]:
                pending.remove(s)
                continue
            if rc == 0:
                raise Broken("harness shard ended early without error (mode %s)" % mode)
            if rc in (64, 65):
                raise Broken("harness usage/input error: %s" % (err or b"").decode()[-500:])
            # died on case `done` (a hang already has its own line)
            if results[s["lo"] + done - 1] != {"hang": True} or rc != 3:
                if s["lo"] + done < s["hi"]:
                    msg = (err or b"").decode(errors="replace")
                    first = [l for l in msg.splitlines() if l.strip()][:2]
                    results[s["lo"] + done] = {"crash": " | ".join(first)[:300] or ("exit %d" % rc)}
                    with open(outp, "a") as f:
                        f.write(json.dumps({"idx": done, "res": results[s["lo"] + done]}) + "\n")
                    done += 1
            s["restarts"] += 1
            if s["restarts"] >= max_dead:
                for k in range(s["lo"] + done, s["hi"]):
                    results[k] = {"skipped": True}
                pending.remove(s)
                continue
            if done >= s["hi"] - s["lo"]:
                pending.remove(s)
                continue
            s["proc"] = launch(s["k"], done)
    missing = [i for i, r in enumerate(results) if r is None]
    if missing:
        raise Broken("harness lost %d results (first %d)" % (len(missing), missing[0]))
    return results


# ---------------------------------------------------------------- findings, evidence, verdicts

def load_known():
    with open(os.path.join(VERIF, "findings", "known.json")) as f:
        return json.load(f)


def known_for(prop):
    """listed, unfixed findings for a property"""
    return [k for k in load_known()["findings"] if prop in k["properties"] and k["status"] == "known"]


def replay_witnesses(rep, binpath, wd):
    """witnesses of the findings listed for this property (findings/known.json, field replay), run on the real library:
    fixed -> must show the repaired behaviour (else VIOLATION: the defect is back); known -> should still show the defect
    (else NOTE stale finding)"""
    from . import specgen
    items = []
    for f in load_known()["findings"]:
        if rep.prop in f["properties"]:
            for w in f.get("replay", []):
                items.append((f, w))
    if not items:
        return
    sub = os.path.join(wd, "witnesses")
    os.makedirs(sub, exist_ok=True)
    pf = os.path.join(sub, "progs.json")
    with open(pf, "w") as fh:
        json.dump([specgen.STD_PROG], fh)
    cases = [{"id": i, "prog": 0, "spec": w["spec"], "env": w["env"], "argv": w["argv"]} for i, (f, w) in enumerate(items)]
    rs = run_harness(binpath, "exec", cases, sub, env={"HARNESS_PROGS": pf}, shards=1, deadline_ms=3000)
    for (f, w), r in zip(items, rs):
        got = "dead" if (r.get("hang") or r.get("crash")) else "specerr" if r.get("specerr") else "ran" if r.get("ran") else "usage" if r.get("err") else "other"
        desc = "%s: spec=%r env=%s argv=%s -> %s (listed: %s)" % (f["id"], w["spec"], w["env"], w["argv"], got, w["want"])
        rep.cov.setdefault("witnesses_replayed", []).append(desc)
        if f["status"] == "fixed" and got != w["want"]:
            rep.violation("a repaired defect is back: " + desc, {"engine": "witness", "finding": f["id"], "witness": w})
        elif f["status"] == "known" and got != w["want"]:
            rep.notes.append("stale finding " + desc)


def replay_one_witness(o, wd):
    from . import specgen
    binpath = build_harness()
    pf = os.path.join(wd, "progs.json")
    with open(pf, "w") as fh:
        json.dump([specgen.STD_PROG], fh)
    w = o["witness"]
    r = run_harness(binpath, "exec", [{"id": 0, "prog": 0, "spec": w["spec"], "env": w["env"], "argv": w["argv"]}], wd, env={"HARNESS_PROGS": pf}, shards=1, deadline_ms=3000)[0]
    got = "dead" if (r.get("hang") or r.get("crash")) else "specerr" if r.get("specerr") else "ran" if r.get("ran") else "usage" if r.get("err") else "other"
    print("replay: %s spec=%r env=%s argv=%s -> %s (repaired behaviour: %s)" % (o["finding"], w["spec"], w["env"], w["argv"], got, w["want"]))
    return 0 if got == w["want"] else 1


class Report:
    def __init__(self, prop, tier, level):
        self.prop, self.tier, self.level = prop, tier, level
        self.t0 = time.time()
        self.cov = {"evaluations": 0, "distinct_nontrivial": 0, "rule": "", "samples": [], "states": 0, "transitions": 0,
                    "traces_validated_against_impl": 0, "exhaustive": False}
        self.assumptions = []
        self.violations = []       # (summary, replay object)
        self.known_hits = {}       # finding id -> [witness strings]
        self.notes = []

    def add_tlc(self, res):
        self.cov["states"] += res.distinct
        self.cov["transitions"] += res.generated

    def violation(self, summary, replay):
        self.violations.append((summary, replay))

    def known(self, fid, witness):
        self.known_hits.setdefault(fid, []).append(witness)

    def finish(self):
        evdir = os.environ.get("VERIF_EVIDENCE_DIR", os.path.join(VERIF, "evidence"))
        rpdir = os.environ.get("VERIF_REPLAY_DIR", os.path.join(VERIF, "replays"))
        os.makedirs(evdir, exist_ok=True)
        os.makedirs(rpdir, exist_ok=True)
        for fid, ws in sorted(self.known_hits.items()):
            print("KNOWN-FINDING: property=%s %s (%d cases this run, e.g. %s)" % (self.prop, fid, len(ws), ws[0]))
        paths = []
        for summary, replay in self.violations[:20]:
            h = hashlib.sha1(json.dumps(replay, sort_keys=True).encode()).hexdigest()[:12]
            path = os.path.join(rpdir, "%s-%s.json" % (self.prop, h))
            with open(path, "w") as f:
                json.dump({"property": self.prop, "summary": summary, "replay": replay}, f, indent=1)
            paths.append(path)
            print("VIOLATION property=%s replay=%s" % (self.prop, path))
            print("  " + summary)
        for n in self.notes:
            print("NOTE " + n)
        cov = dict(self.cov)
        cov["known_findings_seen"] = {k: len(v) for k, v in self.known_hits.items()}
        cov["notes"] = self.notes
        if not cov["samples"]:
            cov["samples"] = ["(none)"]
        ev = {"property_id": self.prop, "tier": self.tier, "seed": seed(), "level": self.level, "coverage": cov,
              "assumptions": self.assumptions, "wall_s": round(time.time() - self.t0, 2), "violations": len(self.violations)}
        with open(os.path.join(evdir, self.prop + ".json"), "w") as f:
            json.dump(ev, f, indent=1, sort_keys=True)
            f.write("\n")
        print("%s %s: %d evaluations, %d distinct non-trivial, TLC %d distinct states, %d violations, %.1fs" % (
            self.prop, self.tier, cov["evaluations"], cov["distinct_nontrivial"], cov["states"], len(self.violations), time.time() - self.t0))
        return 1 if self.violations else 0
