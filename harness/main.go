// Command harness executes cases against the real mow.cli library (built from /repo's working tree
// with -tags verif) and reports what the library did. It contains no oracle: every expectation
// comes from TLC (see /verif/tla) and is compared by /verif/check.
package main

import (
	"bufio"
	"encoding/json"
	"fmt"
	"os"
	"runtime/debug"
	"strconv"
	"time"
)

type modeFunc func(line []byte) interface{}

var modes = map[string]func() modeFunc{}

func main() {
	if len(os.Args) < 2 {
		fmt.Fprintln(os.Stderr, "usage: harness <mode> [args]")
		os.Exit(64)
	}
	switch os.Args[1] {
	case "stream":
		// harness stream <mode> <in.ndjson> <out.ndjson> <start> <deadline-ms>
		stream(os.Args[2:])
	default:
		if f, ok := standalone[os.Args[1]]; ok {
			f(os.Args[2:])
			return
		}
		fmt.Fprintln(os.Stderr, "unknown mode", os.Args[1])
		os.Exit(64)
	}
}

var standalone = map[string]func(args []string){}

// stream runs one case per input line, sequentially, writing (and flushing) one result line per
// case. On a hang the watchdog writes {"idx":..,"hang":true} and exits 3; on a fatal error (stack
// overflow) the process dies and the driver attributes it to the case after the last result line.
func stream(a []string) {
	if len(a) < 5 {
		fmt.Fprintln(os.Stderr, "usage: harness stream <mode> <in> <out> <start> <deadline-ms>")
		os.Exit(64)
	}
	mk, ok := modes[a[0]]
	if !ok {
		fmt.Fprintln(os.Stderr, "unknown stream mode", a[0])
		os.Exit(64)
	}
	run := mk()
	start, _ := strconv.Atoi(a[3])
	deadline, _ := strconv.Atoi(a[4])
	debug.SetMaxStack(64 << 20)
	in, err := os.Open(a[1])
	if err != nil {
		fmt.Fprintln(os.Stderr, err)
		os.Exit(65)
	}
	out, err := os.OpenFile(a[2], os.O_APPEND|os.O_CREATE|os.O_WRONLY, 0644)
	if err != nil {
		fmt.Fprintln(os.Stderr, err)
		os.Exit(65)
	}
	w := bufio.NewWriterSize(out, 1<<20)
	sc := bufio.NewScanner(in)
	sc.Buffer(make([]byte, 1<<24), 1<<24)
	i := -1
	for sc.Scan() {
		i++
		if i < start {
			continue
		}
		line := append([]byte{}, sc.Bytes()...)
		done := make(chan interface{}, 1)
		go func() { done <- run(line) }()
		var res interface{}
		select {
		case res = <-done:
		case <-time.After(time.Duration(deadline) * time.Millisecond):
			bs, _ := json.Marshal(map[string]interface{}{"idx": i, "hang": true})
			w.Write(bs)
			w.WriteByte('\n')
			w.Flush()
			out.Close()
			os.Exit(3)
		}
		bs, err := json.Marshal(map[string]interface{}{"idx": i, "res": res})
		if err != nil {
			bs, _ = json.Marshal(map[string]interface{}{"idx": i, "harness_error": err.Error()})
		}
		w.Write(bs)
		w.WriteByte('\n')
		w.Flush() // one write per case: a fatal crash is then attributable to the case after the last line
	}
	w.Flush()
	out.Close()
}
