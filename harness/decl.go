package main

import (
	"bytes"
	"encoding/json"
	"flag"
	"fmt"
	"io/ioutil"
	"strings"

	cli "github.com/jawher/mow.cli"
)

// decl mode (C18): a sequence of option or argument declarations, each recovered; then every name of
// every accepted option is used on a command line to see which variable it addresses.

type declCase struct {
	Kind  string          `json:"kind"` // opts | args
	Decls json.RawMessage `json:"decls"`
	// Version: index of the option declaration made through Cli.Version (absent: none)
	Version *int `json:"version"`
	// RunAfter: a help request is served (Run) after the declaration of that index, before the next one (absent: none)
	RunAfter *int `json:"runafter"`
	// InSub: the declarations are made inside the initialiser of a sub command (no recover around them); then the application's
	// help is requested, which initialises the sub command for the listing
	InSub bool `json:"insub"`
}

type declResult struct {
	Panics  []bool              `json:"panics"`
	Msgs    []string            `json:"msgs"`
	SubPanic *bool              `json:"subpanic,omitempty"` // InSub: did Run (help of the application) panic
	SubMsg   string             `json:"submsg,omitempty"`
	SubPanic2 *bool             `json:"subpanic2,omitempty"` // InSub: did the second help request panic (asked for only if the first did not)
	SubMsg2  string             `json:"submsg2,omitempty"`
	Address map[string][]int    `json:"address"` // spelled name -> indices of the declarations whose variable was set
	RunErr  map[string]string   `json:"runerr,omitempty"`
}

func init() {
	modes["decl"] = func() modeFunc {
		return func(line []byte) interface{} {
			var c declCase
			if err := json.Unmarshal(line, &c); err != nil {
				return map[string]string{"harness_error": err.Error()}
			}
			return runDecl(c)
		}
	}
}

func runDecl(c declCase) (r declResult) {
	r.Address, r.RunErr = map[string][]int{}, map[string]string{}
	var errBuf bytes.Buffer
	restoreS := cli.VerifSetStreams(ioutil.Discard, &errBuf)
	restoreE := cli.VerifSetExiter(func(code int) { panic(exitSentinel{code}) })
	defer restoreS()
	defer restoreE()
	app := cli.App("app", "")
	app.ErrorHandling = flag.ContinueOnError
	try := func(f func()) (panicked bool, msg string) {
		defer func() {
			if v := recover(); v != nil {
				panicked, msg = true, fmt.Sprint(v)
			}
		}()
		f()
		return
	}
	if c.InSub {
		var lists [][]string
		var names []string
		if c.Kind == "opts" {
			json.Unmarshal(c.Decls, &lists)
		} else {
			json.Unmarshal(c.Decls, &names)
		}
		app.Command("sub", "a sub command", func(sc *cli.Cmd) {
			for _, l := range lists {
				sc.Bool(cli.BoolOpt{Name: strings.Join(l, " ")})
			}
			for _, n := range names {
				sc.String(cli.StringArg{Name: n})
			}
			sc.Action = func() {}
		})
		p, m := try(func() { app.Run([]string{"app", "--help"}) })
		r.SubPanic, r.SubMsg = &p, m
		if !p {
			// the help is requested again: the sub command's initialiser runs a second time on the same object
			p2, m2 := try(func() { app.Run([]string{"app", "--help"}) })
			r.SubPanic2, r.SubMsg2 = &p2, m2
		}
		return
	}
	if c.Kind == "opts" {
		var lists [][]string
		json.Unmarshal(c.Decls, &lists)
		vars := make([]*bool, len(lists))
		for i, l := range lists {
			i, l := i, l
			p, m := try(func() {
				if c.Version != nil && *c.Version == i {
					app.Version(strings.Join(l, " "), "VERSION-STRING-9.9")
				} else {
					vars[i] = app.Bool(cli.BoolOpt{Name: strings.Join(l, " ")})
				}
			})
			r.Panics, r.Msgs = append(r.Panics, p), append(r.Msgs, m)
			if c.RunAfter != nil && *c.RunAfter == i {
				try(func() { app.Run([]string{"app", "--help"}) })
			}
		}
		app.Action = func() {}
		seen := map[string]bool{}
		for i, l := range lists {
			if r.Panics[i] {
				continue
			}
			for _, n := range l {
				spelled := "--" + n
				if len(n) == 1 {
					spelled = "-" + n
				}
				if seen[spelled] {
					continue
				}
				seen[spelled] = true
				for _, v := range vars {
					if v != nil {
						*v = false
					}
				}
				errBuf.Reset()
				p, m := try(func() {
					if err := app.Run([]string{"app", spelled}); err != nil {
						r.RunErr[spelled] = err.Error()
					}
				})
				if p {
					r.RunErr[spelled] = "panic: " + m
				}
				set := []int{}
				if c.Version != nil && strings.Contains(errBuf.String(), "VERSION-STRING-9.9") {
					set = append(set, *c.Version) // the version flag "sets" nothing: it answers
				}
				for k, v := range vars {
					if v != nil && *v {
						set = append(set, k)
					}
				}
				r.Address[spelled] = set
			}
		}
		return
	}
	var names []string
	json.Unmarshal(c.Decls, &names)
	vars := make([]*string, len(names))
	for i, n := range names {
		i, n := i, n
		p, m := try(func() { vars[i] = app.String(cli.StringArg{Name: n}) })
		r.Panics, r.Msgs = append(r.Panics, p), append(r.Msgs, m)
		if c.RunAfter != nil && *c.RunAfter == i {
			try(func() { app.Run([]string{"app", "--help"}) })
		}
	}
	// every accepted argument is addressed by its own name in a spec
	app.Action = func() {}
	var acc []int
	for i := range names {
		if !r.Panics[i] {
			acc = append(acc, i)
		}
	}
	if len(acc) > 0 {
		parts, argv := []string{}, []string{"app"}
		for _, i := range acc {
			parts = append(parts, names[i])
			argv = append(argv, fmt.Sprintf("v%d", i))
		}
		app.Spec = strings.Join(parts, " ")
		p, m := try(func() {
			if err := app.Run(argv); err != nil {
				r.RunErr["run"] = err.Error()
			}
		})
		if p {
			r.RunErr["run"] = "panic: " + m
		}
		for _, i := range acc {
			if vars[i] != nil && *vars[i] == fmt.Sprintf("v%d", i) {
				r.Address[names[i]] = []int{i}
			} else {
				r.Address[names[i]] = []int{}
			}
		}
	}
	return
}
