package main

import (
	"flag"
	"fmt"
	"os"
	"strconv"
	"strings"

	cli "github.com/jawher/mow.cli"
)

// siblings (C06): two sub commands bind the SAME Go variable through the *Ptr entry points, with different defaults and
// environment lists; only the declarations of the command that is addressed may take effect.

type sharedVars struct {
	b  bool
	s  string
	i  int
	f  float64
	ss []string
	is []int
	fs []float64
}

func declShared(cmd *cli.Cmd, typ string, opt bool, def interface{}, envList string, v *sharedVars, sbu *bool) {
	switch typ {
	case "bool":
		d, _ := def.(bool)
		if opt {
			cmd.BoolPtr(&v.b, cli.BoolOpt{Name: "o opt", Value: d, EnvVar: envList, SetByUser: sbu})
		} else {
			cmd.BoolPtr(&v.b, cli.BoolArg{Name: "A", Value: d, EnvVar: envList, SetByUser: sbu})
		}
	case "string":
		d, _ := def.(string)
		if opt {
			cmd.StringPtr(&v.s, cli.StringOpt{Name: "o opt", Value: d, EnvVar: envList, SetByUser: sbu})
		} else {
			cmd.StringPtr(&v.s, cli.StringArg{Name: "A", Value: d, EnvVar: envList, SetByUser: sbu})
		}
	case "int":
		d := 0
		if x, ok := def.(float64); ok {
			d = int(x)
		}
		if opt {
			cmd.IntPtr(&v.i, cli.IntOpt{Name: "o opt", Value: d, EnvVar: envList, SetByUser: sbu})
		} else {
			cmd.IntPtr(&v.i, cli.IntArg{Name: "A", Value: d, EnvVar: envList, SetByUser: sbu})
		}
	case "float":
		d, _ := def.(float64)
		if opt {
			cmd.Float64Ptr(&v.f, cli.Float64Opt{Name: "o opt", Value: d, EnvVar: envList, SetByUser: sbu})
		} else {
			cmd.Float64Ptr(&v.f, cli.Float64Arg{Name: "A", Value: d, EnvVar: envList, SetByUser: sbu})
		}
	case "strings":
		d := toStrings(def)
		if opt {
			cmd.StringsPtr(&v.ss, cli.StringsOpt{Name: "o opt", Value: d, EnvVar: envList, SetByUser: sbu})
		} else {
			cmd.StringsPtr(&v.ss, cli.StringsArg{Name: "A", Value: d, EnvVar: envList, SetByUser: sbu})
		}
	case "ints":
		var d []int
		for _, s := range toStrings(def) {
			i, _ := strconv.Atoi(s)
			d = append(d, i)
		}
		if opt {
			cmd.IntsPtr(&v.is, cli.IntsOpt{Name: "o opt", Value: d, EnvVar: envList, SetByUser: sbu})
		} else {
			cmd.IntsPtr(&v.is, cli.IntsArg{Name: "A", Value: d, EnvVar: envList, SetByUser: sbu})
		}
	case "floats":
		var d []float64
		for _, s := range toStrings(def) {
			f, _ := strconv.ParseFloat(s, 64)
			d = append(d, f)
		}
		if opt {
			cmd.Floats64Ptr(&v.fs, cli.Floats64Opt{Name: "o opt", Value: d, EnvVar: envList, SetByUser: sbu})
		} else {
			cmd.Floats64Ptr(&v.fs, cli.Floats64Arg{Name: "A", Value: d, EnvVar: envList, SetByUser: sbu})
		}
	}
}

func readShared(typ string, v *sharedVars) []string {
	res := []string{}
	switch typ {
	case "bool":
		return []string{strconv.FormatBool(v.b)}
	case "string":
		return []string{v.s}
	case "int":
		return []string{strconv.Itoa(v.i)}
	case "float":
		return []string{canonFloat(v.f)}
	case "strings":
		return append(res, v.ss...)
	case "ints":
		for _, i := range v.is {
			res = append(res, strconv.Itoa(i))
		}
	case "floats":
		for _, f := range v.fs {
			res = append(res, canonFloat(f))
		}
	}
	return res
}

// the other command's default
func otherDefault(typ string, def interface{}) interface{} {
	switch typ {
	case "bool":
		d, _ := def.(bool)
		return !d
	case "string":
		return "sibling-default"
	case "int":
		return float64(777)
	case "float":
		return 7.75
	case "strings":
		return []interface{}{"sibling", "default"}
	case "ints":
		return []interface{}{"777"}
	case "floats":
		return []interface{}{"7.75"}
	}
	return def
}

func runSiblings(c valCase, r *valResult, envList string, errBuf *strings.Builder) {
	defer func() {
		if v := recover(); v != nil {
			if _, ok := v.(exitSentinel); !ok {
				r.Panic = fmt.Sprint(v)
			}
		}
		for _, l := range strings.Split(errBuf.String(), "\n") {
			if strings.HasPrefix(l, "Error: ") && r.ErrLine == "" {
				r.ErrLine = l
			}
		}
	}()
	otherEnv := map[string]string{"bool": "true", "string": "sibling-env", "int": "778", "float": "8.75", "strings": "sib,env", "ints": "778", "floats": "8.75"}[c.Type]
	if d, _ := c.Default.(bool); c.Type == "bool" && d {
		otherEnv = "false"
	}
	os.Setenv("VERIF_SIBLING_ENV", otherEnv)
	defer os.Unsetenv("VERIF_SIBLING_ENV")
	var shared sharedVars
	var sbu, sbuOther bool
	opt := c.Role == "opt"
	app := cli.App("app", "")
	app.ErrorHandling = flag.ContinueOnError
	mine := func(cmd *cli.Cmd) {
		cmd.Spec = c.Spec
		declShared(cmd, c.Type, opt, c.Default, envList, &shared, &sbu)
		cmd.Action = func() {
			r.Ran = true
			r.SBU = sbu
			r.Value = readShared(c.Type, &shared)
		}
	}
	other := func(cmd *cli.Cmd) {
		cmd.Spec = c.Spec
		declShared(cmd, c.Type, opt, otherDefault(c.Type, c.Default), "VERIF_SIBLING_ENV", &shared, &sbuOther)
		cmd.Action = func() {}
	}
	if c.Siblings == 1 {
		app.Command("mine", "", mine)
		app.Command("other", "", other)
	} else {
		app.Command("other", "", other)
		app.Command("mine", "", mine)
	}
	if err := app.Run(append([]string{"app", "mine"}, c.Argv...)); err != nil {
		r.Err = err.Error()
	}
	if !r.Ran {
		r.Value = readShared(c.Type, &shared)
		r.SBU = sbu
	}
}
