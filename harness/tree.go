package main

import (
	"os"
	"bytes"
	"encoding/json"
	"flag"
	"fmt"
	"strings"

	cli "github.com/jawher/mow.cli"
)

// tree mode (C04 C07 C14): a command tree given by the case; every command logs its Before / Action / After and
// has its own recording variables; the error policy and an optional version flag are part of the case.

type treeNode struct {
	Names  []string  `json:"names"`
	Path   string    `json:"path"`
	Spec   string    `json:"spec"`
	Opts   []optDecl `json:"opts"`
	IntOpt string    `json:"intopt"` // name of an Int option ("" = none)
	Args   []string  `json:"args"`
	Subs   []int     `json:"subs"`
	Action bool      `json:"action"`
	Bare   bool      `json:"bare"` // declares nothing (such a command can be initialised more than once)
	Hidden bool      `json:"hidden"`
	Policy string    `json:"policy"` // "" = inherited; continue | exit | panic = set in the command's initialiser
	IntMulti bool    `json:"intmulti"` // the Int option is declared multi-valued (IntsOpt)
	IntEnv   string  `json:"intenv"`   // the Int option is backed by an environment variable holding this text ("" = no variable)
	Late   bool      `json:"late"`   // (children of the application only) declared after the earlier runs, before the observed one
}

type treeCase struct {
	Nodes   []treeNode `json:"nodes"`
	Version string     `json:"version"` // e.g. "v version", "" = none
	Policy  string     `json:"policy"`  // continue | exit | panic
	Argv    []string   `json:"argv"`
	// Prerun: argument vectors run first on the SAME application object (outcome ignored); the observed run is the last one
	Prerun  [][]string `json:"prerun"`
	// PreSpec: the application's spec string during the earlier runs (nil: the same as for the observed run)
	PreSpec *string `json:"prespec"`
}

type treeResult struct {
	Log     []string                       `json:"log"`
	Binds   map[string]map[string][]string `json:"binds"`
	Ints    map[string]int                 `json:"ints"`
	Err     string                         `json:"err,omitempty"`
	Nil     bool                           `json:"retnil"`
	Exits   []int                          `json:"exits"`
	Panic   string                         `json:"panic,omitempty"` // "error:<msg>" | "nil" | other
	Usages  []string                       `json:"usages"`
	Errors  []string                       `json:"errors"`
	Descs   []string                       `json:"descs"` // LONG:/SHORT: markers printed
	Version bool                           `json:"version"`
}

func init() {
	modes["tree"] = func() modeFunc {
		return func(line []byte) interface{} {
			var c treeCase
			if err := json.Unmarshal(line, &c); err != nil {
				return map[string]string{"harness_error": err.Error()}
			}
			return runTree(c)
		}
	}
}

func runTree(c treeCase) (r treeResult) {
	r.Log, r.Exits, r.Usages, r.Errors, r.Descs = []string{}, []int{}, []string{}, []string{}, []string{}
	r.Binds, r.Ints = map[string]map[string][]string{}, map[string]int{}
	var errBuf bytes.Buffer
	restoreS := cli.VerifSetStreams(&errBuf, &errBuf)
	restoreE := cli.VerifSetExiter(func(code int) {
		r.Exits = append(r.Exits, code)
		panic(exitSentinel{code})
	})
	defer restoreS()
	defer restoreE()
	logs := map[string]map[string]*[]string{}
	ints := map[string]*int{}
	defer func() {
		if v := recover(); v != nil {
			switch x := v.(type) {
			case exitSentinel:
			case error:
				r.Panic = "error:" + x.Error()
			default:
				r.Panic = fmt.Sprintf("%T:%v", v, v)
			}
		}
		for path, m := range logs {
			for k, l := range m {
				vals := []string{}
				for _, call := range *l {
					if call == "C" {
						vals = []string{}
					} else {
						vals = append(vals, call[2:])
					}
				}
				if len(vals) > 0 {
					if r.Binds[path] == nil {
						r.Binds[path] = map[string][]string{}
					}
					r.Binds[path][k] = vals
				}
			}
		}
		for path, p := range ints {
			r.Ints[path] = *p
		}
		for _, l := range strings.Split(errBuf.String(), "\n") {
			switch {
			case strings.HasPrefix(l, "Usage: "):
				r.Usages = append(r.Usages, l)
			case strings.HasPrefix(l, "Error: "):
				r.Errors = append(r.Errors, l)
			case strings.HasPrefix(l, "LONG:") || strings.HasPrefix(l, "SHORT:"):
				r.Descs = append(r.Descs, l)
			case l == "VERSION-STRING-1.2.3":
				r.Version = true
			}
		}
	}()

	app := cli.App(c.Nodes[0].Names[0], "SHORT:"+c.Nodes[0].Path)
	switch c.Policy {
	case "continue":
		app.ErrorHandling = flag.ContinueOnError
	case "exit":
		app.ErrorHandling = flag.ExitOnError
	case "panic":
		app.ErrorHandling = flag.PanicOnError
	}
	if c.Version != "" {
		app.Version(c.Version, "VERSION-STRING-1.2.3")
	}
	var build func(cmd *cli.Cmd, idx int)
	build = func(cmd *cli.Cmd, idx int) {
		n := c.Nodes[idx]
		path := n.Path
		cmd.Spec = n.Spec
		cmd.LongDesc = "LONG:" + path
		if n.Hidden {
			cmd.Hidden = true
		}
		switch n.Policy {
		case "continue":
			cmd.ErrorHandling = flag.ContinueOnError
		case "exit":
			cmd.ErrorHandling = flag.ExitOnError
		case "panic":
			cmd.ErrorHandling = flag.PanicOnError
		}
		logs[path] = map[string]*[]string{}
		for _, o := range n.Opts {
			if n.Bare {
				break
			}
			if idx == 0 && o.Names == c.Version {
				continue // the application's own flag of that name is the one Version() declared
			}
			l := new([]string)
			logs[path]["O:"+optKey(o.Names)] = l
			cmd.Var(cli.VarOpt{Name: o.Names, Value: &rec{flag: o.Flag, log: l}})
		}
		if n.IntOpt != "" && !n.Bare && n.IntMulti && n.IntEnv != "" {
			os.Setenv("VERIF_TREE_N", n.IntEnv)
			cmd.Ints(cli.IntsOpt{Name: n.IntOpt, EnvVar: "VERIF_TREE_N"})
			os.Unsetenv("VERIF_TREE_N")
		} else if n.IntOpt != "" && !n.Bare && n.IntMulti {
			cmd.Ints(cli.IntsOpt{Name: n.IntOpt})
		} else if n.IntOpt != "" && !n.Bare {
			ints[path] = cmd.Int(cli.IntOpt{Name: n.IntOpt, Value: -1})
		}
		for _, a := range n.Args {
			if n.Bare {
				break
			}
			if a == "N" {
				cmd.Int(cli.IntArg{Name: "N", Value: -1}) // the Int argument of the specification
				continue
			}
			l := new([]string)
			logs[path]["A:"+a] = l
			cmd.Var(cli.VarArg{Name: a, Value: &rec{log: l}})
		}
		cmd.Before = func() { r.Log = append(r.Log, "B:"+path) }
		cmd.After = func() { r.Log = append(r.Log, "A:"+path) }
		if n.Action {
			cmd.Action = func() { r.Log = append(r.Log, "ACT:"+path) }
		}
		for _, si := range n.Subs {
			si := si
			if idx == 0 && c.Nodes[si].Late {
				continue
			}
			cmd.Command(strings.Join(c.Nodes[si].Names, " "), "SHORT:"+c.Nodes[si].Path, func(sc *cli.Cmd) { build(sc, si) })
		}
	}
	build(app.Cmd, 0)
	if c.PreSpec != nil && len(c.Prerun) > 0 {
		app.Spec = *c.PreSpec
	}
	for _, pre := range c.Prerun {
		func() {
			defer func() { recover() }()
			app.Run(append([]string{c.Nodes[0].Names[0]}, pre...))
		}()
		r.Log, r.Exits = []string{}, []int{}
		errBuf.Reset()
	}
	if c.PreSpec != nil && len(c.Prerun) > 0 {
		app.Spec = c.Nodes[0].Spec
	}
	for _, si := range c.Nodes[0].Subs {
		si := si
		if c.Nodes[si].Late {
			app.Command(strings.Join(c.Nodes[si].Names, " "), "SHORT:"+c.Nodes[si].Path, func(sc *cli.Cmd) { build(sc, si) })
		}
	}
	err := app.Run(append([]string{c.Nodes[0].Names[0]}, c.Argv...))
	if err != nil {
		r.Err = err.Error()
	} else {
		r.Nil = true
	}
	return
}
