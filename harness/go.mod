module verif/harness

go 1.13

require github.com/jawher/mow.cli v0.0.0

replace github.com/jawher/mow.cli => /repo
