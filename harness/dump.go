package main

import (
	"encoding/json"
	"flag"
	"fmt"
	"io/ioutil"

	cli "github.com/jawher/mow.cli"
)

// dump mode (C01 structural part, C16): compile a spec for a program and dump the automaton the real parser built

type dumpCase struct {
	Prog int     `json:"prog"`
	Spec *string `json:"spec"`
}

type dumpResult struct {
	Err   string              `json:"err,omitempty"`
	Auto  *cli.VerifAutomaton `json:"auto,omitempty"`
	Spec  string              `json:"spec"`
}

func init() {
	modes["dump"] = func() modeFunc {
		progs := loadPrograms()
		return func(line []byte) interface{} {
			var c dumpCase
			if err := json.Unmarshal(line, &c); err != nil {
				return map[string]string{"harness_error": err.Error()}
			}
			return runDump(progs[c.Prog], c)
		}
	}
}

func runDump(p program, c dumpCase) (r dumpResult) {
	restoreS := cli.VerifSetStreams(ioutil.Discard, ioutil.Discard)
	defer restoreS()
	defer func() {
		if v := recover(); v != nil {
			r.Err = fmt.Sprint(v)
		}
	}()
	app := cli.App("app", "")
	app.ErrorHandling = flag.ContinueOnError
	if c.Spec != nil {
		app.Spec = *c.Spec
	}
	declare := func(x string) {
		var i int
		fmt.Sscanf(x[1:], "%d", &i)
		if x[0] == 'o' {
			app.Var(cli.VarOpt{Name: p.Opts[i].Names, Value: &rec{flag: p.Opts[i].Flag, log: new([]string)}})
		} else {
			app.Var(cli.VarArg{Name: p.Args[i], Value: &rec{log: new([]string)}})
		}
	}
	if len(p.Order) == 0 {
		for i := range p.Opts {
			declare(fmt.Sprintf("o%d", i))
		}
		for i := range p.Args {
			declare(fmt.Sprintf("a%d", i))
		}
	} else {
		for _, x := range p.Order {
			declare(x)
		}
	}
	if err := cli.VerifInit(app.Cmd); err != nil {
		r.Err = err.Error()
		return
	}
	d := cli.VerifDump(app.Cmd)
	r.Auto = &d
	r.Spec = cli.VerifSpecOf(app.Cmd)
	return
}
