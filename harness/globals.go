package main

import (
	"encoding/json"
	"fmt"
	"go/ast"
	"go/parser"
	"go/token"
	"os"
	"path/filepath"
	"sort"
	"strings"
)

// globals <repo dir>: lists the package-level variables of every non-test, non-verif package of the library and
// every assignment to them outside init functions (C20: the shared-variable table of tla/Apps.tla).

type globalVar struct {
	Pkg     string   `json:"pkg"`
	Name    string   `json:"name"`
	Type    string   `json:"type"`
	Writes  []string `json:"writes"` // "file:line in func"
	Mutable bool     `json:"mutable_kind"` // map, slice, pointer, struct or pool typed (shared storage even without assignments)
}

func init() {
	standalone["globals"] = func(args []string) {
		root := args[0]
		var out []globalVar
		filepath.Walk(root, func(path string, info os.FileInfo, err error) error {
			if err != nil || !info.IsDir() {
				return nil
			}
			if strings.Contains(path, "/.git") || strings.Contains(path, "/testdata") {
				return filepath.SkipDir
			}
			fset := token.NewFileSet()
			pkgs, err := parser.ParseDir(fset, path, func(fi os.FileInfo) bool {
				n := fi.Name()
				return !strings.HasSuffix(n, "_test.go") && !strings.HasPrefix(n, "verif_")
			}, 0)
			if err != nil {
				return nil
			}
			for pname, pkg := range pkgs {
				if strings.HasSuffix(pname, "_test") || strings.HasSuffix(path, "test") || strings.HasSuffix(path, "dot") {
					continue
				}
				vars := map[string]*globalVar{}
				for _, f := range pkg.Files {
					for _, d := range f.Decls {
						gd, ok := d.(*ast.GenDecl)
						if !ok || gd.Tok != token.VAR {
							continue
						}
						for _, s := range gd.Specs {
							vs := s.(*ast.ValueSpec)
							for i, n := range vs.Names {
								if n.Name == "_" {
									continue
								}
								typ := ""
								if vs.Type != nil {
									typ = exprString(vs.Type)
								} else if i < len(vs.Values) {
									typ = exprString(vs.Values[i])
								}
								g := &globalVar{Pkg: strings.TrimPrefix(strings.TrimPrefix(path, root), "/"), Name: n.Name, Type: typ, Writes: []string{}}
								g.Mutable = strings.Contains(typ, "map[") || strings.HasPrefix(typ, "[]") || strings.HasPrefix(typ, "*") ||
									strings.HasPrefix(typ, "&") || strings.Contains(typ, "sync.") || strings.Contains(typ, "{")
								vars[n.Name] = g
							}
						}
					}
				}
				for fname, f := range pkg.Files {
					for _, d := range f.Decls {
						fd, ok := d.(*ast.FuncDecl)
						if !ok || fd.Body == nil || (fd.Name.Name == "init" && fd.Recv == nil) {
							continue
						}
						// locals that shadow a global are not tracked precisely: a write to a shadowing local is reported too (conservative)
						ast.Inspect(fd.Body, func(n ast.Node) bool {
							note := func(e ast.Expr, pos token.Pos) {
								for {
									switch x := e.(type) {
									case *ast.IndexExpr:
										e = x.X
										continue
									case *ast.SelectorExpr:
										e = x.X
										continue
									case *ast.StarExpr:
										e = x.X
										continue
									}
									break
								}
								if id, ok := e.(*ast.Ident); ok {
									if g, ok := vars[id.Name]; ok && id.Obj != nil && id.Obj.Kind == ast.Var {
										if _, isDecl := id.Obj.Decl.(*ast.ValueSpec); isDecl {
											g.Writes = append(g.Writes, fmt.Sprintf("%s:%d in %s", filepath.Base(fname), fset.Position(pos).Line, fd.Name.Name))
										}
									}
								}
							}
							switch x := n.(type) {
							case *ast.AssignStmt:
								if x.Tok != token.DEFINE {
									for _, l := range x.Lhs {
										note(l, x.Pos())
									}
								}
							case *ast.IncDecStmt:
								note(x.X, x.Pos())
							case *ast.UnaryExpr:
								if x.Op == token.AND {
									note(x.X, x.Pos()) // address taken: may be written through the pointer
								}
							}
							return true
						})
					}
				}
				for _, g := range vars {
					sort.Strings(g.Writes)
					out = append(out, *g)
				}
			}
			return nil
		})
		sort.Slice(out, func(i, j int) bool { return out[i].Pkg+"."+out[i].Name < out[j].Pkg+"."+out[j].Name })
		bs, _ := json.MarshalIndent(out, "", " ")
		fmt.Println(string(bs))
	}
}

func exprString(e ast.Expr) string {
	switch x := e.(type) {
	case *ast.Ident:
		return x.Name
	case *ast.SelectorExpr:
		return exprString(x.X) + "." + x.Sel.Name
	case *ast.StarExpr:
		return "*" + exprString(x.X)
	case *ast.ArrayType:
		return "[]" + exprString(x.Elt)
	case *ast.MapType:
		return "map[" + exprString(x.Key) + "]" + exprString(x.Value)
	case *ast.FuncLit:
		return "func"
	case *ast.FuncType:
		return "func"
	case *ast.InterfaceType:
		return "interface"
	case *ast.CallExpr:
		return exprString(x.Fun) + "()"
	case *ast.CompositeLit:
		return exprString(x.Type) + "{}"
	case *ast.UnaryExpr:
		return x.Op.String() + exprString(x.X)
	case *ast.BasicLit:
		return x.Kind.String()
	}
	return fmt.Sprintf("%T", e)
}
