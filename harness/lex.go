package main

import (
	"encoding/json"

	cli "github.com/jawher/mow.cli"
)

// lex mode (C08, C03): the spec lexer alone, through the guarded export

type lexCase struct {
	S string `json:"s"`
}

type lexResult struct {
	Toks []cli.VerifToken    `json:"toks"`
	Err  *cli.VerifSpecError `json:"err,omitempty"`
}

func init() {
	modes["lex"] = func() modeFunc {
		return func(line []byte) interface{} {
			var c lexCase
			if err := json.Unmarshal(line, &c); err != nil {
				return map[string]string{"harness_error": err.Error()}
			}
			toks, e := cli.VerifTokenize(c.S)
			if toks == nil {
				toks = []cli.VerifToken{}
			}
			return lexResult{toks, e}
		}
	}
}
