package main

import (
	"bytes"
	"encoding/hex"
	"encoding/json"
	"flag"
	"fmt"
	"os"
	"strings"

	cli "github.com/jawher/mow.cli"
)

// ---- programs: what is declared before Run ----

type optDecl struct {
	Names string `json:"names"` // as given to mow.cli, e.g. "a aa"
	Flag  bool   `json:"flag"`
	// Version: this option is the one Cli.Version declares (no recording variable behind it)
	Version bool `json:"version"`
}

type program struct {
	Opts []optDecl `json:"opts"`
	Args []string  `json:"args"`
	// Order, when given, is the declaration order: "o<i>" = Opts[i], "a<j>" = Args[j] (default: options, then arguments)
	Order []string `json:"order"`
	// NoSBU lists variables ("O:-b", "A:Y") declared without a SetByUser pointer
	NoSBU []string `json:"nosbu"`
	// Builtin: options are declared with the built-in types (BoolOpt for flags, StringOpt for valued ones) instead of the recording
	// type; what is reported for a variable is then its final value, if the user set it
	Builtin bool `json:"builtin"`
}

func loadPrograms() []program {
	path := os.Getenv("HARNESS_PROGS")
	var ps []program
	bs, err := os.ReadFile(path)
	if err != nil {
		fmt.Fprintln(os.Stderr, "HARNESS_PROGS:", err)
		os.Exit(65)
	}
	if err := json.Unmarshal(bs, &ps); err != nil {
		fmt.Fprintln(os.Stderr, "HARNESS_PROGS:", err)
		os.Exit(65)
	}
	return ps
}

// key of an option = its first name with dashes, as the library prints it
func optKey(names string) string {
	n := strings.Fields(names)[0]
	if len(n) == 1 {
		return "-" + n
	}
	return "--" + n
}

func envVarOf(key string) string { return "VERIF_E_" + strings.ToUpper(hex.EncodeToString([]byte(key))) }

// ---- recording value type: logs every call the library makes on it ----

type rec struct {
	flag bool
	log  *[]string
}

// execHexLog: values are logged hex-encoded (cases whose tokens are not valid UTF-8 and so cannot travel as JSON text)
var execHexLog bool

func (r *rec) Set(s string) error {
	if execHexLog {
		*r.log = append(*r.log, "S:h:"+hex.EncodeToString([]byte(s)))
	} else {
		*r.log = append(*r.log, "S:"+s)
	}
	return nil
}
func (r *rec) String() string     { return "" }
func (r *rec) Clear()             { *r.log = append(*r.log, "C") }
func (r *rec) IsBoolFlag() bool   { return r.flag }

type exitSentinel struct{ code int }

// ---- exec mode ----

type execCase struct {
	ID   int      `json:"id"`
	Prog int      `json:"prog"`
	Spec *string  `json:"spec"` // nil: no spec string (C16)
	Env  []string `json:"env"`  // option keys backed by a set, valid environment variable
	Argv []string `json:"argv"`
	// Prerun: argument vectors run first on the SAME application object (outcome ignored)
	Prerun [][]string `json:"prerun"`
	// ArgvHex, when given, replaces Argv: hex-encoded byte strings; the values are then logged hex-encoded too
	ArgvHex []string `json:"argv_hex"`
	// PostHelp: after Run returned, the application's help is requested through PrintHelp; its usage line is reported
	PostHelp bool `json:"posthelp"`
	// PreSpec: the spec string in force during the earlier runs (Prerun); the observed run uses Spec
	PreSpec *string `json:"prespec"`
}

type execResult struct {
	ID       int                 `json:"id"`
	Ran      bool                `json:"ran"`
	Err      string              `json:"err,omitempty"`
	Panic    string              `json:"panic,omitempty"`
	SpecErr  *cli.VerifSpecError `json:"specerr,omitempty"`
	Exits    []int               `json:"exits,omitempty"`
	Log      map[string][]string `json:"log"`    // calls during Run, per variable ("O:-a", "A:X")
	EnvLog   map[string][]string `json:"envlog"` // calls at declaration time
	SBU      map[string]bool     `json:"sbu"`    // SetByUser flags read inside the Action
	Hooks    []string            `json:"hooks,omitempty"` // Before/After interceptors that ran
	ErrLines []string            `json:"errlines,omitempty"`
	Usage    string              `json:"usage,omitempty"`
	PostUsage string             `json:"postusage,omitempty"`
}

func init() {
	modes["exec"] = func() modeFunc {
		progs := loadPrograms()
		return func(line []byte) interface{} {
			var c execCase
			if err := json.Unmarshal(line, &c); err != nil {
				return map[string]string{"harness_error": err.Error()}
			}
			return runExec(progs[c.Prog], c)
		}
	}
}

func runExec(p program, c execCase) (r execResult) {
	r.ID = c.ID
	r.Log, r.EnvLog, r.SBU = map[string][]string{}, map[string][]string{}, map[string]bool{}
	var errBuf bytes.Buffer
	restoreS := cli.VerifSetStreams(&errBuf, &errBuf)
	restoreE := cli.VerifSetExiter(func(code int) {
		r.Exits = append(r.Exits, code)
		panic(exitSentinel{code})
	})
	defer restoreS()
	defer restoreE()

	envset := map[string]bool{}
	for _, k := range c.Env {
		envset[k] = true
	}
	for _, o := range p.Opts {
		k := optKey(o.Names)
		if envset[k] {
			val := "env"
			if p.Builtin && o.Flag {
				val = "true" // must be valid for the type to count
			}
			os.Setenv(envVarOf(k), val)
		} else {
			os.Unsetenv(envVarOf(k))
		}
	}
	for _, a := range p.Args {
		if envset["A:"+a] {
			os.Setenv(envVarOf("A:"+a), "env")
		} else {
			os.Unsetenv(envVarOf("A:" + a))
		}
	}
	defer func() {
		for _, o := range p.Opts {
			os.Unsetenv(envVarOf(optKey(o.Names)))
		}
		for _, a := range p.Args {
			os.Unsetenv(envVarOf("A:" + a))
		}
	}()

	logs := map[string]*[]string{}
	sbu := map[string]*bool{}
	defer func() {
		if v := recover(); v != nil {
			switch x := v.(type) {
			case exitSentinel:
			default:
				if se := cli.VerifAsSpecError(x); se != nil {
					r.SpecErr = se
				} else {
					r.Panic = fmt.Sprint(x)
				}
			}
		}
		for k, l := range logs {
			if len(*l) > 0 {
				r.Log[k] = *l
			}
		}
		r.ErrLines, r.Usage = digest(errBuf.String())
	}()

	app := cli.App("app", "")
	app.ErrorHandling = flag.ContinueOnError
	if c.Spec != nil {
		app.Spec = *c.Spec
	}
	nosbu := map[string]bool{}
	for _, k := range p.NoSBU {
		nosbu[k] = true
	}
	finals := map[string]func() string{}
	declOpt := func(o optDecl) {
		if o.Version {
			app.Version(o.Names, "VERSION-STRING-2.0")
			return
		}
		k := optKey(o.Names)
		if p.Builtin {
			b := new(bool)
			sbu["O:"+k] = b
			logs["O:"+k] = new([]string)
			if o.Flag {
				v := app.Bool(cli.BoolOpt{Name: o.Names, EnvVar: envVarOf(k), SetByUser: b})
				finals["O:"+k] = func() string { return fmt.Sprint(*v) }
			} else {
				v := app.String(cli.StringOpt{Name: o.Names, EnvVar: envVarOf(k), SetByUser: b})
				finals["O:"+k] = func() string { return *v }
			}
			return
		}
		l, b := new([]string), new(bool)
		logs["O:"+k] = l
		if nosbu["O:"+k] {
			b = nil
		} else {
			sbu["O:"+k] = b
		}
		app.Var(cli.VarOpt{Name: o.Names, EnvVar: envVarOf(k), Value: &rec{flag: o.Flag, log: l}, SetByUser: b})
	}
	declArg := func(a string) {
		l, b := new([]string), new(bool)
		logs["A:"+a] = l
		if nosbu["A:"+a] {
			b = nil
		} else {
			sbu["A:"+a] = b
		}
		app.Var(cli.VarArg{Name: a, EnvVar: envVarOf("A:" + a), Value: &rec{log: l}, SetByUser: b})
	}
	if len(p.Order) == 0 {
		for _, o := range p.Opts {
			declOpt(o)
		}
		for _, a := range p.Args {
			declArg(a)
		}
	} else {
		for _, x := range p.Order {
			var i int
			fmt.Sscanf(x[1:], "%d", &i)
			if x[0] == 'o' {
				declOpt(p.Opts[i])
			} else {
				declArg(p.Args[i])
			}
		}
	}
	// what happened at declaration time (environment) is kept apart
	for k, l := range logs {
		if len(*l) > 0 {
			r.EnvLog[k] = *l
			*l = nil
		}
	}
	app.Before = func() { r.Hooks = append(r.Hooks, "before") }
	app.After = func() { r.Hooks = append(r.Hooks, "after") }
	app.Action = func() {
		r.Ran = true
		for k, b := range sbu {
			r.SBU[k] = *b
		}
		for k, f := range finals {
			if *sbu[k] {
				*logs[k] = append(*logs[k], "S:"+f())
			}
		}
	}
	if c.PreSpec != nil && len(c.Prerun) > 0 {
		app.Spec = *c.PreSpec
	}
	for _, pre := range c.Prerun {
		func() {
			defer func() { recover() }()
			app.Run(append([]string{"app"}, pre...))
		}()
		r.Ran, r.Hooks = false, nil
		for _, l := range logs {
			*l = nil
		}
		for _, b := range sbu {
			*b = false
		}
		errBuf.Reset()
	}
	if c.PreSpec != nil && len(c.Prerun) > 0 {
		app.Spec = ""
		if c.Spec != nil {
			app.Spec = *c.Spec
		}
	}
	argv := c.Argv
	if len(c.ArgvHex) > 0 {
		argv = nil
		for _, h := range c.ArgvHex {
			b, _ := hex.DecodeString(h)
			argv = append(argv, string(b))
		}
		execHexLog = true
		defer func() { execHexLog = false }()
	}
	if err := app.Run(append([]string{"app"}, argv...)); err != nil {
		r.Err = err.Error()
	}
	if c.PostHelp {
		mark := errBuf.Len()
		app.PrintHelp()
		_, r.PostUsage = digest(errBuf.String()[mark:])
		errBuf.Truncate(mark)
	}
	return
}

// digest keeps the "Error:" lines and the usage line of what was written to the error stream
func digest(s string) (errs []string, usage string) {
	for _, l := range strings.Split(s, "\n") {
		if strings.HasPrefix(l, "Error: ") {
			errs = append(errs, l)
		}
		if strings.HasPrefix(l, "Usage: ") && usage == "" {
			usage = l
		}
	}
	return
}
