package main

import (
	"encoding/json"
	"flag"
	"io/ioutil"
	"os"

	cli "github.com/jawher/mow.cli"
)

// match mode: one level's spec matched against an argument vector with every Matcher.Match call recorded

type matchResult struct {
	Err    string                `json:"err,omitempty"`
	Events []cli.VerifMatchEvent `json:"events"`
}

func init() {
	modes["match"] = func() modeFunc {
		progs := loadPrograms()
		return func(line []byte) interface{} {
			var c execCase
			if err := json.Unmarshal(line, &c); err != nil {
				return map[string]string{"harness_error": err.Error()}
			}
			return runMatch(progs[c.Prog], c)
		}
	}
}

func runMatch(p program, c execCase) (r matchResult) {
	r.Events = []cli.VerifMatchEvent{}
	restoreS := cli.VerifSetStreams(ioutil.Discard, ioutil.Discard)
	defer restoreS()
	envset := map[string]bool{}
	for _, k := range c.Env {
		envset[k] = true
	}
	for _, o := range p.Opts {
		k := optKey(o.Names)
		if envset[k] {
			os.Setenv(envVarOf(k), "env")
		} else {
			os.Unsetenv(envVarOf(k))
		}
	}
	defer func() {
		for _, o := range p.Opts {
			os.Unsetenv(envVarOf(optKey(o.Names)))
		}
		if v := recover(); v != nil {
			r.Err = "panic"
		}
	}()
	app := cli.App("app", "")
	app.ErrorHandling = flag.ContinueOnError
	if c.Spec != nil {
		app.Spec = *c.Spec
	}
	for _, o := range p.Opts {
		app.Var(cli.VarOpt{Name: o.Names, EnvVar: envVarOf(optKey(o.Names)), Value: &rec{flag: o.Flag, log: new([]string)}})
	}
	for _, a := range p.Args {
		app.Var(cli.VarArg{Name: a, Value: &rec{log: new([]string)}})
	}
	if err := cli.VerifParseTraced(app.Cmd, c.Argv, func(ev cli.VerifMatchEvent) {
		if len(r.Events) < 4000 {
			r.Events = append(r.Events, ev)
		}
	}); err != nil {
		r.Err = err.Error()
	}
	return
}
