package main

import (
	"os/exec"
	"encoding/json"
	"flag"
	"fmt"
	"io/ioutil"
	"math/rand"
	"os"
	"strconv"
	"strings"
	"sync"

	cli "github.com/jawher/mow.cli"
)

// conc mode (C20): applications built and run one after another in permuted orders, then concurrently in many
// goroutines (build this binary with -race). Every outcome must equal the outcome of the same application and
// argument vector run alone first.

// default slices held in package-level variables and shared by every instance a builder creates
var (
	sharedTags   = []string{"alpha", "beta"}
	sharedInts   = []int{3, 4}
	sharedFloats = []float64{0.5, 8}
)

type concApp struct {
	name  string
	argvs [][]string
	build func(out *[]string) *cli.Cli
}

// a user-supplied value type whose IsBoolFlag answer is a property of the value, not of the type
type levelVal struct {
	isFlag bool
	v      *string
}

func (l *levelVal) Set(s string) error { *l.v = s; return nil }
func (l *levelVal) String() string     { return *l.v }
func (l *levelVal) IsBoolFlag() bool   { return l.isFlag }

func levelApp(name string, isFlag bool) func(out *[]string) *cli.Cli {
	return func(out *[]string) *cli.Cli {
		app := cli.App(name, "")
		app.Spec = "[-l] [X]"
		lv := "unset"
		app.Var(cli.VarOpt{Name: "l level", Value: &levelVal{isFlag, &lv}})
		x := app.StringArg("X", "", "")
		app.Action = func() { *out = append(*out, "ACT", show("l", lv), show("X", *x)) }
		return app
	}
}

func lateOptApp(used bool) func(out *[]string) *cli.Cli {
	return func(out *[]string) *cli.Cli {
		app := cli.App("lateopt", "")
		app.ErrorHandling = flag.ContinueOnError
		app.Spec = "[OPTIONS] [X]"
		a := app.BoolOpt("a", false, "")
		x := app.StringArg("X", "", "")
		var n *int
		app.Action = func() {
			nv := -1
			if n != nil {
				nv = *n
			}
			*out = append(*out, "ACT", show("a", *a), show("n", nv), show("X", *x))
		}
		if used {
			func() {
				defer func() { recover() }()
				app.Run([]string{"lateopt", "-a", "first"})
			}()
			*out = nil
			*a, *x = false, ""
		}
		n = app.IntOpt("n num", 1, "")
		return app
	}
}

func show(name string, v interface{}) string { return fmt.Sprintf("%s=%v", name, v) }

func concApps() []concApp {
	return []concApp{
		{"cp", [][]string{{"a", "b"}, {"-R", "-t", "x", "a", "b", "c"}, {"a"}, {"-t=1", "-t=2", "s", "d"}, {"--", "-x", "d"}, {"-h"}},
			func(out *[]string) *cli.Cli {
				app := cli.App("cp", "copy")
				app.Version("V version", "cp 1.0")
				app.Spec = "[-R] [-t...] SRC... DST"
				r := app.BoolOpt("R recursive", false, "")
				t := app.Strings(cli.StringsOpt{Name: "t tag", Value: sharedTags})
				src := app.StringsArg("SRC", nil, "")
				dst := app.StringArg("DST", "", "")
				app.Action = func() { *out = append(*out, "ACT", show("R", *r), show("t", *t), show("SRC", *src), show("DST", *dst)) }
				return app
			}},
		{"nums", [][]string{{}, {"-n", "5", "x"}, {"-i=7", "-i=8", "-f", "2.5", "x", "y"}, {"-n", "zz"}, {"-e", "cli", "q"}, {"-i", "1", "-n=2", "-i", "3"}},
			func(out *[]string) *cli.Cli {
				app := cli.App("nums", "")
				n := app.IntOpt("n num", 1, "")
				i := app.Ints(cli.IntsOpt{Name: "i ints", Value: sharedInts})
				f := app.Floats64(cli.Floats64Opt{Name: "f floats", Value: sharedFloats})
				e := app.String(cli.StringOpt{Name: "e", Value: "dflt", EnvVar: "VERIF_CONC_E"})
				x := app.Strings(cli.StringsArg{Name: "X", Value: sharedTags})
				app.Spec = "[OPTIONS] [X...]"
				app.Action = func() { *out = append(*out, "ACT", show("n", *n), show("i", *i), show("f", *f), show("e", *e), show("X", *x)) }
				return app
			}},
		{"tree", [][]string{{"get", "k"}, {"-v", "put", "k", "v"}, {"g", "--raw", "k"}, {"put", "k"}, {"nope"}, {"get", "--help"}, {"-v", "-v", "get", "a"}},
			func(out *[]string) *cli.Cli {
				app := cli.App("kv", "")
				v := app.BoolOpt("v verbose", false, "")
				app.Before = func() { *out = append(*out, "B:kv", show("v", *v)) }
				app.After = func() { *out = append(*out, "A:kv") }
				app.Command("get g", "", func(c *cli.Cmd) {
					raw := c.BoolOpt("raw", false, "")
					k := c.StringArg("KEY", "", "")
					c.Spec = "[--raw] KEY"
					c.Before = func() { *out = append(*out, "B:get") }
					c.Action = func() { *out = append(*out, "ACT:get", show("raw", *raw), show("KEY", *k)) }
				})
				app.Command("put", "", func(c *cli.Cmd) {
					k := c.StringArg("KEY", "", "")
					val := c.StringArg("VAL", "", "")
					c.Action = func() { *out = append(*out, "ACT:put", show("KEY", *k), show("VAL", *val)) }
					c.After = func() { *out = append(*out, "A:put") }
				})
				return app
			}},
		{"rep", [][]string{{"x"}, {"-a", "-b", "x", "y"}, {"-ab", "-o", "1", "-o2", "x"}, {"-o"}, {"x", "--"}, {"-ba", "--out=3", "--", "-q"}},
			func(out *[]string) *cli.Cli {
				app := cli.App("rep", "")
				app.Version("V version", "rep 2.0")
				app.Spec = "[-ab] [-o...] X..."
				a := app.BoolOpt("a", false, "")
				b := app.BoolOpt("b", false, "")
				o := app.Strings(cli.StringsOpt{Name: "o out", Value: sharedTags})
				x := app.StringsArg("X", nil, "")
				app.Action = func() { *out = append(*out, "ACT", show("a", *a), show("b", *b), show("o", *o), show("X", *x)) }
				return app
			}},
		{"env", [][]string{{}, {"-u", "me"}, {"q"}, {"--url", "http://h", "q", "r"}},
			func(out *[]string) *cli.Cli {
				app := cli.App("env", "")
				u := app.String(cli.StringOpt{Name: "u url", Value: "none", EnvVar: "VERIF_CONC_U VERIF_CONC_E"})
				l := app.Ints(cli.IntsOpt{Name: "l", Value: sharedInts, EnvVar: "VERIF_CONC_L"})
				x := app.Strings(cli.StringsArg{Name: "X", Value: nil})
				app.Spec = "-u [-l...] [X...]"
				app.Action = func() { *out = append(*out, "ACT", show("u", *u), show("l", *l), show("X", *x)) }
				return app
			}},
		// an option group whose first declared member is satisfied by the environment and absent from the line
		{"grp", [][]string{{"-ab", "x"}, {"-a", "-b", "x", "y"}, {"-ba"}, {"-abE", "cli", "x"}, {"x"}, {"-q", "-V"}},
			func(out *[]string) *cli.Cli {
				app := cli.App("grp", "")
				app.Version("V version", "grp 3.0")
				e := app.String(cli.StringOpt{Name: "E env", Value: "dflt", EnvVar: "VERIF_CONC_E"})
				a := app.BoolOpt("a", false, "")
				b := app.BoolOpt("b", false, "")
				qq := app.BoolOpt("q", false, "")
				x := app.StringsArg("X", nil, "")
				app.Spec = "[OPTIONS] [X...]"
				app.Action = func() { *out = append(*out, "ACT", show("E", *e), show("a", *a), show("b", *b), show("q", *qq), show("X", *x)) }
				return app
			}},
		// overlapping alternatives inside a repetition: which of them takes a token is fixed by the spec, not by the build
		{"ovl", [][]string{{"x", "y", "z"}, {"x"}, {"x", "y"}, {"-k", "x", "y", "z", "w"}},
			func(out *[]string) *cli.Cli {
				app := cli.App("ovl", "")
				app.Spec = "[-k] (SRC | DST)..."
				k := app.BoolOpt("k", false, "")
				src := app.StringsArg("SRC", nil, "")
				dst := app.StringsArg("DST", nil, "")
				app.Action = func() { *out = append(*out, "ACT", show("k", *k), show("SRC", *src), show("DST", *dst)) }
				return app
			}},
		{"ovl2", [][]string{{"x", "y", "z"}, {"x", "y"}},
			func(out *[]string) *cli.Cli {
				app := cli.App("ovl2", "")
				app.Spec = "[SRC | DST | X]..."
				src := app.StringsArg("SRC", nil, "")
				dst := app.StringsArg("DST", nil, "")
				x := app.StringsArg("X", nil, "")
				app.Action = func() { *out = append(*out, "ACT", show("SRC", *src), show("DST", *dst), show("X", *x)) }
				return app
			}},
		// an application whose help cannot be printed (a sub command has an ill-formed spec): it panics, and the applications that
		// print their help afterwards must not care
		{"brokenhelp", [][]string{{"-h"}, {"bogus"}},
			func(out *[]string) *cli.Cli {
				app := cli.App("brokenhelp", "")
				app.Command("child", "", func(c *cli.Cmd) { c.Spec = "[-z" })
				return app
			}},
		// an application that already ran once and then got one more option, and its twin that declares everything up-front and never
		// ran: the outcome is a function of the declarations and the argument vector only
		{"lateopt", [][]string{{"-n", "3"}, {"-a", "-n=4", "x"}, {"x"}, {"-n"}}, lateOptApp(true)},
		{"lateopt_fresh", [][]string{{"-n", "3"}, {"-a", "-n=4", "x"}, {"x"}, {"-n"}}, lateOptApp(false)},
		{"lvlflag", [][]string{{"-l", "high"}, {"-l"}, {"-l=true", "x"}, {"x"}}, levelApp("lvlflag", true)},
		{"lvlval", [][]string{{"-l", "high"}, {"-l"}, {"-l=high", "x"}, {"-lhigh"}}, levelApp("lvlval", false)},
		// an option and an argument at one level: two conversion errors in one invocation, an option and an argument bound to the
		// same variable through the Ptr entry points (options are stored before arguments)
		{"both", [][]string{{"-n", "few", "many"}, {"-n", "7", "many"}, {"-n", "7", "8"}, {"-s", "from-option", "9", "from-argument"}, {"9", "only-argument"}},
			func(out *[]string) *cli.Cli {
				app := cli.App("both", "")
				app.Spec = "[-n] [-s] N [S]"
				n := app.IntOpt("n num", 1, "")
				m := app.IntArg("N", 2, "")
				var shared string
				app.StringPtr(&shared, cli.StringOpt{Name: "s str", Value: "opt-default"})
				app.StringPtr(&shared, cli.StringArg{Name: "S", Value: "arg-default"})
				app.Action = func() { *out = append(*out, "ACT", show("n", *n), show("N", *m), show("shared", shared)) }
				return app
			}},
	}
}

// concRun builds and runs one application. With envChanges the environment variables the applications read at declaration time
// are given other values between the declaration and Run (and restored afterwards): the outcome must not depend on them.
// argument vectors are built once per case and handed to every run of that case (a program's os.Args is one slice too): Run must
// treat the vector as read-only
var vecMu sync.Mutex
var vecs = map[string][]string{}

func vectorOf(a concApp, argv []string) []string {
	vecMu.Lock()
	defer vecMu.Unlock()
	k := a.name + "\x00" + strings.Join(argv, "\x00")
	if v, ok := vecs[k]; ok {
		return v
	}
	v := append([]string{a.name}, argv...)
	vecs[k] = v
	return v
}

func concRun(a concApp, argv []string, envChanges bool) (res string) {
	var out []string
	defer func() {
		if v := recover(); v != nil {
			if s, ok := v.(exitSentinel); ok {
				out = append(out, "EXIT:"+strconv.Itoa(s.code))
			} else {
				out = append(out, fmt.Sprintf("PANIC:%v", v))
			}
		}
		res = strings.Join(out, " ")
	}()
	app := a.build(&out)
	app.ErrorHandling = flag.ContinueOnError
	if envChanges {
		os.Setenv("VERIF_CONC_E", "changed-after-declaration")
		os.Setenv("VERIF_CONC_L", "77")
		os.Setenv("VERIF_CONC_U", "late")
		defer func() {
			os.Setenv("VERIF_CONC_E", "from-env")
			os.Setenv("VERIF_CONC_L", "5, 6")
			os.Unsetenv("VERIF_CONC_U")
		}()
	}
	vec := vectorOf(a, argv)
	if err := app.Run(vec); err != nil {
		out = append(out, "ERR:"+err.Error())
	}
	if strings.Join(vec[1:], "\x00") != strings.Join(argv, "\x00") {
		out = append(out, fmt.Sprintf("ARGUMENT-VECTOR-MODIFIED:%q", vec))
	}
	return
}

type concReport struct {
	Sequential  int      `json:"sequential_runs"`
	Concurrent  int      `json:"concurrent_runs"`
	Goroutines  int      `json:"goroutines"`
	Mismatches  []string `json:"mismatches"`
	Samples     []string `json:"samples"`
	DefaultsOK  bool     `json:"shared_defaults_intact"`
	Apps        int      `json:"apps"`
	Cases       int      `json:"cases"`
}

func init() {
	// concone <case index>: one case alone in this process
	standalone["concone"] = func(args []string) {
		idx, _ := strconv.Atoi(args[0])
		restoreS := cli.VerifSetStreams(ioutil.Discard, ioutil.Discard)
		restoreE := cli.VerifSetExiter(func(code int) { panic(exitSentinel{code}) })
		defer restoreS()
		defer restoreE()
		os.Setenv("VERIF_CONC_E", "from-env")
		os.Setenv("VERIF_CONC_L", "5, 6")
		os.Unsetenv("VERIF_CONC_U")
		k := 0
		for _, a := range concApps() {
			for _, v := range a.argvs {
				if k == idx {
					fmt.Println("ONE " + concRun(a, v, false))
					return
				}
				k++
			}
		}
	}
	// conc <rounds> <goroutines> <seed>
	standalone["conc"] = func(args []string) {
		rounds, _ := strconv.Atoi(args[0])
		gor, _ := strconv.Atoi(args[1])
		seed, _ := strconv.Atoi(args[2])
		restoreS := cli.VerifSetStreams(ioutil.Discard, ioutil.Discard)
		restoreE := cli.VerifSetExiter(func(code int) { panic(exitSentinel{code}) })
		defer restoreS()
		defer restoreE()
		os.Setenv("VERIF_CONC_E", "from-env")
		os.Setenv("VERIF_CONC_L", "5, 6")
		os.Unsetenv("VERIF_CONC_U")
		apps := concApps()
		rep := concReport{Goroutines: gor, Apps: len(apps), Mismatches: []string{}}
		type cs struct {
			a    concApp
			argv []string
		}
		var cases []cs
		for _, a := range apps {
			for _, v := range a.argvs {
				cases = append(cases, cs{a, v})
			}
		}
		rep.Cases = len(cases)
		// 1. every case alone, in declaration order: the reference outcome of this very build of the library
		ref := make([]string, len(cases))
		for i, c := range cases {
			ref[i] = concRun(c.a, c.argv, false)
			rep.Sequential++
		}
		rep.Samples = append(rep.Samples, ref[1], ref[8], ref[13])
		// 1a. twins (<name> and <name>_fresh: the same declarations, one of them used before): the same outcomes
		for i, c := range cases {
			for j, d := range cases {
				if d.a.name == c.a.name+"_fresh" && strings.Join(d.argv, "\x00") == strings.Join(c.argv, "\x00") && ref[i] != ref[j] {
					if len(rep.Mismatches) < 20 {
						rep.Mismatches = append(rep.Mismatches, fmt.Sprintf("twins: %s %v: the used application gives %q, the fresh one %q", c.a.name, c.argv, ref[i], ref[j]))
					}
				}
			}
		}
		// 1b. every case alone in a process of its own: nothing an earlier application left behind in this process may matter
		for i := range cases {
			outb, err := exec.Command(os.Args[0], "concone", strconv.Itoa(i)).Output()
			rep.Sequential++
			got := strings.TrimSuffix(string(outb), "\n")
			if err != nil || got != "ONE "+ref[i] {
				if len(rep.Mismatches) < 20 {
					rep.Mismatches = append(rep.Mismatches, fmt.Sprintf("fresh process: %s %v: got %q (%v), in the common process %q", cases[i].a.name, cases[i].argv, got, err, ref[i]))
				}
			}
		}
		mism := func(kind string, i int, got string) {
			if len(rep.Mismatches) < 20 {
				rep.Mismatches = append(rep.Mismatches, fmt.Sprintf("%s: %s %v: got %q, alone %q", kind, cases[i].a.name, cases[i].argv, got, ref[i]))
			}
		}
		// 2. rebuilt and rerun, in permuted orders
		rnd := rand.New(rand.NewSource(int64(seed)))
		for r := 0; r < rounds; r++ {
			for _, i := range rnd.Perm(len(cases)) {
				got := concRun(cases[i].a, cases[i].argv, r%2 == 1)
				rep.Sequential++
				if got != ref[i] {
					if r%2 == 1 {
						mism("order, environment changed after the declaration", i, got)
					} else {
						mism("order", i, got)
					}
				}
			}
		}
		// 3. concurrently
		var mu sync.Mutex
		var wg sync.WaitGroup
		for g := 0; g < gor; g++ {
			wg.Add(1)
			go func(g int) {
				defer wg.Done()
				lr := rand.New(rand.NewSource(int64(seed*1000 + g)))
				for r := 0; r < rounds; r++ {
					for _, i := range lr.Perm(len(cases)) {
						got := concRun(cases[i].a, cases[i].argv, false)
						mu.Lock()
						rep.Concurrent++
						if got != ref[i] {
							mism("concurrent", i, got)
						}
						mu.Unlock()
					}
				}
			}(g)
		}
		wg.Wait()
		rep.DefaultsOK = fmt.Sprint(sharedTags) == "[alpha beta]" && fmt.Sprint(sharedInts) == "[3 4]" && fmt.Sprint(sharedFloats) == "[0.5 8]"
		bs, _ := json.Marshal(rep)
		fmt.Println("CONC " + string(bs))
	}
}
