package main

import (
	"bytes"
	"encoding/json"
	"flag"
	"fmt"
	"os"
	"strconv"
	"strings"

	cli "github.com/jawher/mow.cli"
)

// help mode (C17): a fully described command tree; print the (long) help of one command and return the text.

type helpParam struct {
	Names   string      `json:"names"` // option names ("f force") or the argument name
	Type    string      `json:"type"`
	Default interface{} `json:"default"`
	Env     string      `json:"env"`
	Hide    bool        `json:"hide"`
	Desc    string      `json:"desc"`
}

type helpNode struct {
	Names    []string    `json:"names"`
	Desc     string      `json:"desc"`
	LongDesc string      `json:"longdesc"`
	Hidden   bool        `json:"hidden"`
	Spec     string      `json:"spec"`
	Opts     []helpParam `json:"opts"`
	Args     []helpParam `json:"args"`
	Subs     []int       `json:"subs"`
}

type helpCase struct {
	Nodes  []helpNode        `json:"nodes"`
	Target []int             `json:"target"` // node indices from the root to the command whose help is wanted
	Long   bool              `json:"long"`
	Via    string            `json:"via"` // method | method2 (the second of two help requests on the same object) | flag
	SetEnv map[string]string `json:"setenv"`
}

type helpResult struct {
	Text  string `json:"text"`
	Panic string `json:"panic,omitempty"`
}

func init() {
	modes["help"] = func() modeFunc {
		return func(line []byte) interface{} {
			var c helpCase
			if err := json.Unmarshal(line, &c); err != nil {
				return map[string]string{"harness_error": err.Error()}
			}
			return runHelp(c)
		}
	}
}

func declParam(cmd *cli.Cmd, p helpParam, opt bool) {
	switch p.Type {
	case "bool":
		d, _ := p.Default.(bool)
		if opt {
			cmd.Bool(cli.BoolOpt{Name: p.Names, Value: d, Desc: p.Desc, EnvVar: p.Env, HideValue: p.Hide})
		} else {
			cmd.Bool(cli.BoolArg{Name: p.Names, Value: d, Desc: p.Desc, EnvVar: p.Env, HideValue: p.Hide})
		}
	case "string":
		d, _ := p.Default.(string)
		if opt {
			cmd.String(cli.StringOpt{Name: p.Names, Value: d, Desc: p.Desc, EnvVar: p.Env, HideValue: p.Hide})
		} else {
			cmd.String(cli.StringArg{Name: p.Names, Value: d, Desc: p.Desc, EnvVar: p.Env, HideValue: p.Hide})
		}
	case "int":
		f, _ := p.Default.(float64)
		if opt {
			cmd.Int(cli.IntOpt{Name: p.Names, Value: int(f), Desc: p.Desc, EnvVar: p.Env, HideValue: p.Hide})
		} else {
			cmd.Int(cli.IntArg{Name: p.Names, Value: int(f), Desc: p.Desc, EnvVar: p.Env, HideValue: p.Hide})
		}
	case "float":
		f, _ := p.Default.(float64)
		if opt {
			cmd.Float64(cli.Float64Opt{Name: p.Names, Value: f, Desc: p.Desc, EnvVar: p.Env, HideValue: p.Hide})
		} else {
			cmd.Float64(cli.Float64Arg{Name: p.Names, Value: f, Desc: p.Desc, EnvVar: p.Env, HideValue: p.Hide})
		}
	case "strings":
		d := toStrings(p.Default)
		if len(d) == 0 {
			d = nil
		}
		if opt {
			cmd.Strings(cli.StringsOpt{Name: p.Names, Value: d, Desc: p.Desc, EnvVar: p.Env, HideValue: p.Hide})
		} else {
			cmd.Strings(cli.StringsArg{Name: p.Names, Value: d, Desc: p.Desc, EnvVar: p.Env, HideValue: p.Hide})
		}
	case "ints":
		var d []int
		for _, s := range toStrings(p.Default) {
			i, _ := strconv.Atoi(s)
			d = append(d, i)
		}
		if opt {
			cmd.Ints(cli.IntsOpt{Name: p.Names, Value: d, Desc: p.Desc, EnvVar: p.Env, HideValue: p.Hide})
		} else {
			cmd.Ints(cli.IntsArg{Name: p.Names, Value: d, Desc: p.Desc, EnvVar: p.Env, HideValue: p.Hide})
		}
	case "floats":
		var d []float64
		for _, s := range toStrings(p.Default) {
			f, _ := strconv.ParseFloat(s, 64)
			d = append(d, f)
		}
		if opt {
			cmd.Floats64(cli.Floats64Opt{Name: p.Names, Value: d, Desc: p.Desc, EnvVar: p.Env, HideValue: p.Hide})
		} else {
			cmd.Floats64(cli.Floats64Arg{Name: p.Names, Value: d, Desc: p.Desc, EnvVar: p.Env, HideValue: p.Hide})
		}
	default:
		panic("harness: unknown type " + p.Type)
	}
}

func runHelp(c helpCase) (r helpResult) {
	var buf bytes.Buffer
	restoreS := cli.VerifSetStreams(&buf, &buf)
	restoreE := cli.VerifSetExiter(func(code int) { panic(exitSentinel{code}) })
	defer restoreS()
	defer restoreE()
	for k, v := range c.SetEnv {
		os.Setenv(k, v)
	}
	defer func() {
		for k := range c.SetEnv {
			os.Unsetenv(k)
		}
		if v := recover(); v != nil {
			if _, ok := v.(exitSentinel); !ok {
				r.Panic = fmt.Sprint(v)
			}
		}
		r.Text = buf.String()
	}()
	root := c.Nodes[0]
	app := cli.App(root.Names[0], root.Desc)
	app.ErrorHandling = flag.ContinueOnError
	var build func(cmd *cli.Cmd, idx int)
	build = func(cmd *cli.Cmd, idx int) {
		n := c.Nodes[idx]
		cmd.Spec = n.Spec
		cmd.LongDesc = n.LongDesc
		if n.Hidden {
			cmd.Hidden = true // otherwise left as the library created it
		}
		for _, o := range n.Opts {
			declParam(cmd, o, true)
		}
		for _, a := range n.Args {
			declParam(cmd, a, false)
		}
		cmd.Action = func() {}
		for _, si := range n.Subs {
			si := si
			cmd.Command(strings.Join(c.Nodes[si].Names, " "), c.Nodes[si].Desc, func(sc *cli.Cmd) { build(sc, si) })
		}
	}
	build(app.Cmd, 0)
	switch c.Via {
	case "flag":
		argv := []string{root.Names[0]}
		for _, i := range c.Target[1:] {
			argv = append(argv, c.Nodes[i].Names[len(c.Nodes[i].Names)-1])
		}
		app.Run(append(argv, "--help"))
	default:
		cmd := app.Cmd
		if err := cli.VerifInit(cmd); err != nil {
			panic(err)
		}
		for _, i := range c.Target[1:] {
			cmd = cli.VerifSub(cmd, c.Nodes[i].Names[0])
			if err := cli.VerifInit(cmd); err != nil {
				panic(err)
			}
		}
		if c.Via == "method2" {
			// the help of the same command object a second time: the first output is dropped
			cmd.PrintLongHelp()
			buf.Reset()
		}
		if c.Long {
			cmd.PrintLongHelp()
		} else {
			cmd.PrintHelp()
		}
	}
	return
}
