package main

import (
	"encoding/hex"
	"encoding/json"
	"flag"
	"fmt"
	"math"
	"os"
	"strconv"
	"strings"

	cli "github.com/jawher/mow.cli"
)

// values mode (C06 C13 C15 C19): one variable of a given type, declared as option or argument with a
// default and a list of environment variables, then a command line binding zero or more tokens to it.

type envVar struct {
	Name  string `json:"name"`
	State string `json:"state"` // unset | empty | set
	Value string `json:"value"`
}

type customCaps struct {
	Bool      bool     `json:"bool"`
	BoolFalse bool     `json:"boolfalse"` // has IsBoolFlag(), which answers false
	MapType   bool     `json:"maptype"`   // the value is a map type used by value (not hashable, not comparable): multi-valued
	Multi     bool     `json:"multi"`
	IsDefault bool     `json:"isdefault"`
	FailOn    []string `json:"failon"` // tokens Set rejects
}

type valCase struct {
	Type    string      `json:"type"` // bool string int float strings ints floats custom
	Role    string      `json:"role"` // opt | arg
	Ptr     bool        `json:"ptr"`  // declare through the *Ptr entry point
	Default interface{} `json:"default"`
	Envs    []envVar    `json:"envs"`
	Cli     []string    `json:"cli"`  // tokens bound to the variable, in order
	Argv    []string    `json:"argv"` // the command line delivering them
	// ArgvHex, when given, is the command line as hex-encoded byte strings (tokens that are not valid UTF-8 cannot travel as JSON text)
	ArgvHex []string    `json:"argv_hex"`
	Spec    string      `json:"spec"`
	Custom  *customCaps `json:"custom"`
	Extra   bool        `json:"extraflag"` // also declare a plain bool option -x (clusters, groups)
	// Siblings: 1 or 2 = the variable is declared (through the Ptr entry points) by two sub commands that share it, the addressed
	// one being declared first (1) or second (2); the other one has another default and the environment variable VERIF_SIBLING_ENV
	Siblings int        `json:"siblings"`
	// Pair (multi-valued built-in types): a second option -p/--pair of the same type is declared with the SAME default slice
	// ("shared": the case's default; "sharedcap": an empty slice with spare capacity)
	Pair    string      `json:"pair"`
	// Prerun: command lines run first on the same application object (their outcome is dropped)
	Prerun   [][]string `json:"prerun"`
	PreSpec  *string    `json:"prespec"` // the spec string in force during the earlier runs
	ExtraEnv bool       `json:"extraenv"` // the plain bool option -x is backed by an environment variable that is set
	Conv    bool        `json:"conv"`      // declare through the convenience methods (BoolOpt(name, value, desc), ...Ptr): no env, no SetByUser
}

type valResult struct {
	Ran     bool     `json:"ran"`
	Err     string   `json:"err,omitempty"`
	Panic   string   `json:"panic,omitempty"`
	ValueHex []string `json:"value_hex,omitempty"` // string types with ArgvHex: the bytes of every value
	Value2  []string `json:"value2,omitempty"` // Pair: the second variable
	Value   []string `json:"value"`   // canonical rendering of the variable inside the Action (or after Run when it did not run)
	SBU     bool     `json:"sbu"`     // SetByUser inside the Action
	SBU2    bool     `json:"sbu2"`    // Pair "samevar": the flag of the second option
	EnvLog  []string `json:"envlog"`  // custom types: calls at declaration time
	FillLog []string `json:"filllog"` // custom types: calls during Run
	Canon   map[string]canonTok `json:"canon"` // what strconv says about every token involved
	ErrLine string   `json:"errline,omitempty"`
}

type canonTok struct {
	OK  bool   `json:"ok"`
	Val string `json:"val"`
}

func canonFloat(f float64) string {
	if f != f {
		return fmt.Sprintf("NaN:%x", math.Float64bits(f))
	}
	return strconv.FormatFloat(f, 'g', -1, 64)
}

// strconvVerdict is the trusted oracle for C13 (DESIGN section 7): Go's strconv
func strconvVerdict(typ, tok string) canonTok {
	switch typ {
	case "int", "ints":
		i, err := strconv.ParseInt(tok, 10, 64)
		return canonTok{err == nil, strconv.Itoa(int(i))}
	case "float", "floats":
		f, err := strconv.ParseFloat(tok, 64)
		return canonTok{err == nil, canonFloat(f)}
	case "bool":
		b, err := strconv.ParseBool(tok)
		return canonTok{err == nil, strconv.FormatBool(b)}
	}
	return canonTok{true, tok}
}

// custom value type with every combination of the optional methods
type customBase struct {
	log    *[]string
	failOn map[string]bool
}

func (c *customBase) Set(s string) error {
	if c.failOn[s] {
		*c.log = append(*c.log, "S!:"+s)
		return fmt.Errorf("custom value rejects %q", s)
	}
	*c.log = append(*c.log, "S:"+s)
	return nil
}
func (c *customBase) String() string { return "custom" }

type customB struct{ customBase }
type customM struct{ customBase }
type customD struct{ customBase }
type customBM struct{ customBase }
type customBD struct{ customBase }
type customMD struct{ customBase }
type customBMD struct{ customBase }

type customF struct{ customBase }
type customFM struct{ customBase }
type customFD struct{ customBase }
type customFMD struct{ customBase }

func (c *customF) IsBoolFlag() bool   { return false }
func (c *customFM) IsBoolFlag() bool  { return false }
func (c *customFD) IsBoolFlag() bool  { return false }
func (c *customFMD) IsBoolFlag() bool { return false }
func (c *customFM) Clear()            { *c.log = append(*c.log, "C") }
func (c *customFMD) Clear()           { *c.log = append(*c.log, "C") }
func (c *customFD) IsDefault() bool   { return true }
func (c *customFMD) IsDefault() bool  { return true }
func (c *customB) IsBoolFlag() bool   { return true }
func (c *customBM) IsBoolFlag() bool  { return true }
func (c *customBD) IsBoolFlag() bool  { return true }
func (c *customBMD) IsBoolFlag() bool { return true }
func (c *customM) Clear()             { *c.log = append(*c.log, "C") }
func (c *customBM) Clear()            { *c.log = append(*c.log, "C") }
func (c *customMD) Clear()            { *c.log = append(*c.log, "C") }
func (c *customBMD) Clear()           { *c.log = append(*c.log, "C") }
func (c *customD) IsDefault() bool    { return true }
func (c *customBD) IsDefault() bool   { return true }
func (c *customMD) IsDefault() bool   { return true }
func (c *customBMD) IsDefault() bool  { return true }

// customMap is a user-supplied multi-valued type whose dynamic type is a map (used by value)
type customMap map[string]bool

var customMapLog *[]string

func (m customMap) Set(s string) error {
	if s == "bad" || s == "bad2" || s == "bad3" || s == "bad4" {
		*customMapLog = append(*customMapLog, "S!:"+s)
		return fmt.Errorf("custom value rejects %q", s)
	}
	*customMapLog = append(*customMapLog, "S:"+s)
	m[s] = true
	return nil
}
func (m customMap) String() string { return "custom" }
func (m customMap) Clear() {
	*customMapLog = append(*customMapLog, "C")
	for k := range m {
		delete(m, k)
	}
}

func mkCustom(caps customCaps, log *[]string) flag.Value {
	if caps.MapType {
		customMapLog = log
		return customMap{}
	}
	b := customBase{log: log, failOn: map[string]bool{}}
	for _, f := range caps.FailOn {
		b.failOn[f] = true
	}
	switch {
	case caps.BoolFalse && caps.Multi && caps.IsDefault:
		return &customFMD{b}
	case caps.BoolFalse && caps.Multi:
		return &customFM{b}
	case caps.BoolFalse && caps.IsDefault:
		return &customFD{b}
	case caps.BoolFalse:
		return &customF{b}
	case caps.Bool && caps.Multi && caps.IsDefault:
		return &customBMD{b}
	case caps.Bool && caps.Multi:
		return &customBM{b}
	case caps.Bool && caps.IsDefault:
		return &customBD{b}
	case caps.Multi && caps.IsDefault:
		return &customMD{b}
	case caps.Bool:
		return &customB{b}
	case caps.Multi:
		return &customM{b}
	case caps.IsDefault:
		return &customD{b}
	}
	return &b
}

func init() {
	modes["values"] = func() modeFunc {
		return func(line []byte) interface{} {
			var c valCase
			if err := json.Unmarshal(line, &c); err != nil {
				return map[string]string{"harness_error": err.Error()}
			}
			return runValues(c)
		}
	}
}

func toStrings(v interface{}) []string {
	res := []string{}
	if l, ok := v.([]interface{}); ok {
		for _, x := range l {
			res = append(res, fmt.Sprint(x))
		}
	}
	return res
}

func runValues(c valCase) (r valResult) {
	r.Value, r.EnvLog, r.FillLog, r.Canon = []string{}, []string{}, []string{}, map[string]canonTok{}
	var errBuf strings.Builder
	restoreS := cli.VerifSetStreams(&errBuf, &errBuf)
	restoreE := cli.VerifSetExiter(func(code int) { panic(exitSentinel{code}) })
	defer restoreS()
	defer restoreE()
	names := []string{}
	for _, e := range c.Envs {
		names = append(names, e.Name)
		switch e.State {
		case "unset":
			os.Unsetenv(e.Name)
		case "empty":
			os.Setenv(e.Name, "")
		default:
			os.Setenv(e.Name, e.Value)
		}
	}
	defer func() {
		for _, n := range names {
			os.Unsetenv(n)
		}
	}()
	for _, t := range c.Cli {
		r.Canon[t] = strconvVerdict(c.Type, t)
	}
	for _, e := range c.Envs {
		if e.State != "set" {
			continue
		}
		if strings.HasSuffix(c.Type, "s") && c.Type != "custom" || (c.Custom != nil && c.Custom.Multi) {
			for _, el := range strings.Split(e.Value, ",") {
				el = strings.TrimSpace(el)
				r.Canon[el] = strconvVerdict(c.Type, el)
			}
		} else {
			r.Canon[e.Value] = strconvVerdict(c.Type, e.Value)
		}
	}
	envList := strings.Join(names, " ")
	if c.Siblings > 0 {
		runSiblings(c, &r, envList, &errBuf)
		return
	}
	var sbu bool
	var log []string
	var read func() []string
	var read2 func() []string
	var sbu2 bool

	app := cli.App("app", "")
	app.ErrorHandling = flag.ContinueOnError
	app.Spec = c.Spec
	opt := c.Role == "opt"
	defer func() {
		if v := recover(); v != nil {
			if _, ok := v.(exitSentinel); !ok {
				r.Panic = fmt.Sprint(v)
			}
		}
		for _, l := range strings.Split(errBuf.String(), "\n") {
			if strings.HasPrefix(l, "Error: ") && r.ErrLine == "" {
				r.ErrLine = l
			}
		}
	}()
	if c.Conv {
		read = declConv(app.Cmd, c, opt)
	}
	switch {
	case c.Conv:
	case c.Type == "bool":
		d, _ := c.Default.(bool)
		var p *bool
		if opt {
			x := cli.BoolOpt{Name: "o opt", Value: d, EnvVar: envList, SetByUser: &sbu}
			if c.Ptr {
				p = new(bool)
				app.BoolPtr(p, x)
			} else {
				p = app.Bool(x)
			}
		} else {
			x := cli.BoolArg{Name: "A", Value: d, EnvVar: envList, SetByUser: &sbu}
			if c.Ptr {
				p = new(bool)
				app.BoolPtr(p, x)
			} else {
				p = app.Bool(x)
			}
		}
		read = func() []string { return []string{strconv.FormatBool(*p)} }
	case c.Type == "string":
		d, _ := c.Default.(string)
		var p *string
		if opt {
			x := cli.StringOpt{Name: "o opt", Value: d, EnvVar: envList, SetByUser: &sbu}
			if c.Ptr {
				p = new(string)
				app.StringPtr(p, x)
			} else {
				p = app.String(x)
			}
		} else {
			x := cli.StringArg{Name: "A", Value: d, EnvVar: envList, SetByUser: &sbu}
			if c.Ptr {
				p = new(string)
				app.StringPtr(p, x)
			} else {
				p = app.String(x)
			}
		}
		if c.Pair == "samevar" {
			// a second option -p stores into the very same variable (through the Ptr entry point), with a SetByUser flag of its own
			app.StringPtr(p, cli.StringOpt{Name: "p pair", Value: d, SetByUser: &sbu2})
		}
		read = func() []string { return []string{*p} }
	case c.Type == "int":
		f, _ := c.Default.(float64)
		d := int(f)
		var p *int
		if opt {
			x := cli.IntOpt{Name: "o opt", Value: d, EnvVar: envList, SetByUser: &sbu}
			if c.Ptr {
				p = new(int)
				app.IntPtr(p, x)
			} else {
				p = app.Int(x)
			}
		} else {
			x := cli.IntArg{Name: "A", Value: d, EnvVar: envList, SetByUser: &sbu}
			if c.Ptr {
				p = new(int)
				app.IntPtr(p, x)
			} else {
				p = app.Int(x)
			}
		}
		read = func() []string { return []string{strconv.Itoa(*p)} }
	case c.Type == "float":
		d, _ := c.Default.(float64)
		var p *float64
		if opt {
			x := cli.Float64Opt{Name: "o opt", Value: d, EnvVar: envList, SetByUser: &sbu}
			if c.Ptr {
				p = new(float64)
				app.Float64Ptr(p, x)
			} else {
				p = app.Float64(x)
			}
		} else {
			x := cli.Float64Arg{Name: "A", Value: d, EnvVar: envList, SetByUser: &sbu}
			if c.Ptr {
				p = new(float64)
				app.Float64Ptr(p, x)
			} else {
				p = app.Float64(x)
			}
		}
		read = func() []string { return []string{canonFloat(*p)} }
	case c.Type == "strings":
		d := toStrings(c.Default)
		if c.Pair == "sharedcap" {
			d = make([]string, 0, 8)
		}
		if c.Pair == "args" {
			q := app.Strings(cli.StringsArg{Name: "B", Value: append([]string{}, d...)})
			read2 = func() []string { return append([]string{}, (*q)...) }
		} else if c.Pair != "" {
			q := app.Strings(cli.StringsOpt{Name: "p pair", Value: d})
			read2 = func() []string { return append([]string{}, (*q)...) }
		}
		var p *[]string
		if opt {
			x := cli.StringsOpt{Name: "o opt", Value: d, EnvVar: envList, SetByUser: &sbu}
			if c.Ptr {
				p = new([]string)
				app.StringsPtr(p, x)
			} else {
				p = app.Strings(x)
			}
		} else {
			x := cli.StringsArg{Name: "A", Value: d, EnvVar: envList, SetByUser: &sbu}
			if c.Ptr {
				p = new([]string)
				app.StringsPtr(p, x)
			} else {
				p = app.Strings(x)
			}
		}
		read = func() []string { return append([]string{}, (*p)...) }
	case c.Type == "ints":
		var d []int
		for _, s := range toStrings(c.Default) {
			i, _ := strconv.Atoi(s)
			d = append(d, i)
		}
		if c.Pair == "sharedcap" {
			d = make([]int, 0, 8)
		}
		if c.Pair != "" {
			var q *[]int
			if c.Pair == "args" {
				q = app.Ints(cli.IntsArg{Name: "B", Value: append([]int{}, d...)})
			} else {
				q = app.Ints(cli.IntsOpt{Name: "p pair", Value: d})
			}
			read2 = func() []string {
				res := []string{}
				for _, i := range *q {
					res = append(res, strconv.Itoa(i))
				}
				return res
			}
		}
		var p *[]int
		if opt {
			x := cli.IntsOpt{Name: "o opt", Value: d, EnvVar: envList, SetByUser: &sbu}
			if c.Ptr {
				p = new([]int)
				app.IntsPtr(p, x)
			} else {
				p = app.Ints(x)
			}
		} else {
			x := cli.IntsArg{Name: "A", Value: d, EnvVar: envList, SetByUser: &sbu}
			if c.Ptr {
				p = new([]int)
				app.IntsPtr(p, x)
			} else {
				p = app.Ints(x)
			}
		}
		read = func() []string {
			res := []string{}
			for _, i := range *p {
				res = append(res, strconv.Itoa(i))
			}
			return res
		}
	case c.Type == "floats":
		var d []float64
		for _, s := range toStrings(c.Default) {
			f, _ := strconv.ParseFloat(s, 64)
			d = append(d, f)
		}
		if c.Pair == "sharedcap" {
			d = make([]float64, 0, 8)
		}
		if c.Pair != "" {
			var q *[]float64
			if c.Pair == "args" {
				q = app.Floats64(cli.Floats64Arg{Name: "B", Value: append([]float64{}, d...)})
			} else {
				q = app.Floats64(cli.Floats64Opt{Name: "p pair", Value: d})
			}
			read2 = func() []string {
				res := []string{}
				for _, f := range *q {
					res = append(res, canonFloat(f))
				}
				return res
			}
		}
		var p *[]float64
		if opt {
			x := cli.Floats64Opt{Name: "o opt", Value: d, EnvVar: envList, SetByUser: &sbu}
			if c.Ptr {
				p = new([]float64)
				app.Floats64Ptr(p, x)
			} else {
				p = app.Floats64(x)
			}
		} else {
			x := cli.Floats64Arg{Name: "A", Value: d, EnvVar: envList, SetByUser: &sbu}
			if c.Ptr {
				p = new([]float64)
				app.Floats64Ptr(p, x)
			} else {
				p = app.Floats64(x)
			}
		}
		read = func() []string {
			res := []string{}
			for _, f := range *p {
				res = append(res, canonFloat(f))
			}
			return res
		}
	case c.Type == "custom":
		v := mkCustom(*c.Custom, &log)
		if opt {
			app.Var(cli.VarOpt{Name: "o opt", Value: v, EnvVar: envList, SetByUser: &sbu})
		} else {
			app.Var(cli.VarArg{Name: "A", Value: v, EnvVar: envList, SetByUser: &sbu})
		}
		read = func() []string { return []string{} }
	default:
		r.Panic = "harness: unknown type " + c.Type
		return
	}
	if c.Extra {
		if c.ExtraEnv {
			os.Setenv("VERIF_X_ENV", "true")
			defer os.Unsetenv("VERIF_X_ENV")
			app.Bool(cli.BoolOpt{Name: "x extra", EnvVar: "VERIF_X_ENV"})
		} else {
			app.Bool(cli.BoolOpt{Name: "x extra"})
		}
	}
	r.EnvLog = append(r.EnvLog, log...)
	log = nil
	app.Action = func() {
		r.Ran = true
		r.SBU = sbu
		r.SBU2 = sbu2
		r.Value = read()
		if read2 != nil {
			r.Value2 = read2()
		}
	}
	if c.PreSpec != nil && len(c.Prerun) > 0 {
		app.Spec = *c.PreSpec
	}
	for _, pre := range c.Prerun {
		func() {
			defer func() { recover() }()
			app.Run(append([]string{"app"}, pre...))
		}()
		r.Ran, sbu = false, false
		log = nil
		errBuf.Reset()
	}
	if c.PreSpec != nil && len(c.Prerun) > 0 {
		app.Spec = c.Spec
	}
	argv := c.Argv
	if len(c.ArgvHex) > 0 {
		argv = nil
		for _, h := range c.ArgvHex {
			b, _ := hex.DecodeString(h)
			argv = append(argv, string(b))
		}
	}
	if err := app.Run(append([]string{"app"}, argv...)); err != nil {
		r.Err = err.Error()
	}
	r.FillLog = append(r.FillLog, log...)
	if !r.Ran {
		r.Value = read()
		r.SBU = sbu
	}
	if len(c.ArgvHex) > 0 {
		for _, v := range r.Value {
			r.ValueHex = append(r.ValueHex, hex.EncodeToString([]byte(v)))
		}
	}
	return
}

// declConv declares the variable through the convenience methods of options.go / args.go
func declConv(cmd *cli.Cmd, c valCase, opt bool) func() []string {
	name := "A"
	if opt {
		name = "o opt"
	}
	switch c.Type {
	case "bool":
		d, _ := c.Default.(bool)
		p := new(bool)
		switch {
		case opt && c.Ptr:
			cmd.BoolOptPtr(p, name, d, "")
		case opt:
			p = cmd.BoolOpt(name, d, "")
		case c.Ptr:
			cmd.BoolArgPtr(p, name, d, "")
		default:
			p = cmd.BoolArg(name, d, "")
		}
		return func() []string { return []string{strconv.FormatBool(*p)} }
	case "string":
		d, _ := c.Default.(string)
		p := new(string)
		switch {
		case opt && c.Ptr:
			cmd.StringOptPtr(p, name, d, "")
		case opt:
			p = cmd.StringOpt(name, d, "")
		case c.Ptr:
			cmd.StringArgPtr(p, name, d, "")
		default:
			p = cmd.StringArg(name, d, "")
		}
		return func() []string { return []string{*p} }
	case "int":
		f, _ := c.Default.(float64)
		d := int(f)
		p := new(int)
		switch {
		case opt && c.Ptr:
			cmd.IntOptPtr(p, name, d, "")
		case opt:
			p = cmd.IntOpt(name, d, "")
		case c.Ptr:
			cmd.IntArgPtr(p, name, d, "")
		default:
			p = cmd.IntArg(name, d, "")
		}
		return func() []string { return []string{strconv.Itoa(*p)} }
	case "float":
		d, _ := c.Default.(float64)
		p := new(float64)
		switch {
		case opt && c.Ptr:
			cmd.Float64OptPtr(p, name, d, "")
		case opt:
			p = cmd.Float64Opt(name, d, "")
		case c.Ptr:
			cmd.Float64ArgPtr(p, name, d, "")
		default:
			p = cmd.Float64Arg(name, d, "")
		}
		return func() []string { return []string{canonFloat(*p)} }
	case "strings":
		d := toStrings(c.Default)
		p := new([]string)
		switch {
		case opt && c.Ptr:
			cmd.StringsOptPtr(p, name, d, "")
		case opt:
			p = cmd.StringsOpt(name, d, "")
		case c.Ptr:
			cmd.StringsArgPtr(p, name, d, "")
		default:
			p = cmd.StringsArg(name, d, "")
		}
		return func() []string { return append([]string{}, (*p)...) }
	case "ints":
		var d []int
		for _, s := range toStrings(c.Default) {
			i, _ := strconv.Atoi(s)
			d = append(d, i)
		}
		p := new([]int)
		switch {
		case opt && c.Ptr:
			cmd.IntsOptPtr(p, name, d, "")
		case opt:
			p = cmd.IntsOpt(name, d, "")
		case c.Ptr:
			cmd.IntsArgPtr(p, name, d, "")
		default:
			p = cmd.IntsArg(name, d, "")
		}
		return func() []string {
			res := []string{}
			for _, i := range *p {
				res = append(res, strconv.Itoa(i))
			}
			return res
		}
	case "floats":
		var d []float64
		for _, s := range toStrings(c.Default) {
			f, _ := strconv.ParseFloat(s, 64)
			d = append(d, f)
		}
		p := new([]float64)
		switch {
		case opt && c.Ptr:
			cmd.Floats64OptPtr(p, name, d, "")
		case opt:
			p = cmd.Floats64Opt(name, d, "")
		case c.Ptr:
			cmd.Floats64ArgPtr(p, name, d, "")
		default:
			p = cmd.Floats64Arg(name, d, "")
		}
		return func() []string {
			res := []string{}
			for _, f := range *p {
				res = append(res, canonFloat(f))
			}
			return res
		}
	}
	panic("harness: no convenience method for type " + c.Type)
}
