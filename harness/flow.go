package main

import (
	"runtime"
	"encoding/json"
	"flag"
	"fmt"
	"io/ioutil"
	"os"
	"strings"

	cli "github.com/jawher/mow.cli"
)

// flow mode (C05): a chain app -> c1 -> ... -> c<depth>; every hook's outcome is given by the case.
// kinds in hook order B0..Bd, ACT, Ad..A0: "absent" | "returns" | "panics" | "exits"

type flowCase struct {
	Depth int      `json:"depth"`
	Kinds []string `json:"kinds"`
	// Args: every level also declares a flag and an argument (spec "[-f] [X]") and gets its own tokens on the command line
	Args bool `json:"args"`
}

type flowResult struct {
	Log   []string `json:"log"`
	Fin   string   `json:"fin"` // returned | panic | exited
	By    string   `json:"by"`  // hook whose value ended the run
	Exits []string `json:"exits"`
	Err   string   `json:"err,omitempty"`
	Same  bool     `json:"same"` // the re-raised value is the very value the hook raised
}

type hookPanic struct{ by string }

// hookErr is a panic value that implements error (a library must not treat it differently)
type hookErr struct{ by string }

func (e *hookErr) Error() string { return "hook error " + e.by }

func hookNames(depth int) []string {
	var ns []string
	for l := 0; l <= depth; l++ {
		ns = append(ns, fmt.Sprintf("B%d", l))
	}
	ns = append(ns, "ACT")
	for l := depth; l >= 0; l-- {
		ns = append(ns, fmt.Sprintf("A%d", l))
	}
	return ns
}

func buildFlowApp(c flowCase, log *[]string, raised map[string]interface{}) *cli.Cli {
	names := hookNames(c.Depth)
	kindOf := map[string]string{}
	for i, n := range names {
		kindOf[n] = c.Kinds[i]
	}
	mk := func(name string) func() {
		k := kindOf[name]
		if k == "absent" {
			return nil
		}
		idx := 0
		for i, n := range names {
			if n == name {
				idx = i
			}
		}
		return func() {
			*log = append(*log, name)
			switch k {
			case "panics":
				// the dynamic type of the value varies with the hook: pointer, error, string
				var v interface{}
				switch idx % 4 {
				case 0:
					v = &hookErr{name}
				case 1:
					v = "P:" + name
				case 3:
					// a genuine Go runtime error (its text carries the hook's index)
					raised[name] = "runtime"
					var empty []int
					_ = empty[1000+idx]
				default:
					v = &hookPanic{name}
				}
				raised[name] = v
				panic(v)
			case "exits":
				cli.Exit(exitCodeOf(idx))
			}
		}
	}
	app := cli.App("app", "")
	app.ErrorHandling = flag.ContinueOnError
	var build func(cmd *cli.Cmd, lvl int)
	build = func(cmd *cli.Cmd, lvl int) {
		if c.Args {
			cmd.Spec = "[-f] [X]"
			cmd.BoolOpt("f", false, "")
			cmd.StringArg("X", "", "")
		}
		cmd.Before = mk(fmt.Sprintf("B%d", lvl))
		cmd.After = mk(fmt.Sprintf("A%d", lvl))
		if lvl == c.Depth {
			cmd.Action = mk("ACT")
			return
		}
		// the commands above the addressed one have Actions of their own: none of them may run
		cmd.Action = func() { *log = append(*log, fmt.Sprintf("ANCESTOR-ACTION%d", lvl)) }
		cmd.Command(fmt.Sprintf("c%d", lvl+1), "", func(sc *cli.Cmd) { build(sc, lvl+1) })
	}
	build(app.Cmd, 0)
	return app
}

func flowArgs(c flowCase) []string {
	own := [][]string{{"-f", "x"}, {"x"}, {"-f"}, {}}
	args := []string{"app"}
	if c.Args {
		args = append(args, own[0]...)
	}
	for l := 1; l <= c.Depth; l++ {
		args = append(args, fmt.Sprintf("c%d", l))
		if c.Args {
			args = append(args, own[l%len(own)]...)
		}
	}
	return args
}

func init() {
	modes["flow"] = func() modeFunc {
		return func(line []byte) interface{} {
			var c flowCase
			if err := json.Unmarshal(line, &c); err != nil {
				return map[string]string{"harness_error": err.Error()}
			}
			return runFlow(c)
		}
	}
	// flowexit <case json>: the same application with the real exiter; the process status is the observation
	standalone["flowexit"] = func(args []string) {
		var c flowCase
		if err := json.Unmarshal([]byte(args[0]), &c); err != nil {
			os.Exit(65)
		}
		var log []string
		restore := cli.VerifSetStreams(ioutil.Discard, ioutil.Discard)
		defer restore()
		app := buildFlowApp(c, &log, map[string]interface{}{})
		defer func() {
			if v := recover(); v != nil {
				switch x := v.(type) {
				case *hookPanic:
					fmt.Println("PANIC " + x.by)
					os.Exit(99)
				case *hookErr:
					fmt.Println("PANIC " + x.by)
					os.Exit(99)
				case string:
					fmt.Println("PANIC " + strings.TrimPrefix(x, "P:"))
					os.Exit(99)
				case runtime.Error:
					if h := hookOfRuntimeError(x); h >= 0 && h < len(hookNames(c.Depth)) {
						fmt.Println("PANIC " + hookNames(c.Depth)[h])
						os.Exit(99)
					}
				}
				panic(v)
			}
		}()
		app.Run(flowArgs(c))
		fmt.Println("RETURNED")
	}
}

// the hook with index 1 exits with status 0, the one with index 2 with -3, hook i with 10+i
func exitCodeOf(idx int) int {
	if idx == 1 {
		return 0
	}
	if idx == 2 {
		return -3
	}
	if idx == 3 {
		return 300 // more than a process status can hold: the exit function still gets 300
	}
	return 10 + idx
}

func hookOfCode(code int) int {
	if code == 0 {
		return 1
	}
	if code == -3 {
		return 2
	}
	if code == 300 {
		return 3
	}
	return code - 10
}

// hook index carried by the text of a runtime error raised by a hook ("index out of range [1007] with length 0"), -1 if none
func hookOfRuntimeError(e error) int {
	var n int
	if _, err := fmt.Sscanf(e.Error(), "runtime error: index out of range [%d]", &n); err == nil && n >= 1000 {
		return n - 1000
	}
	return -1
}

func runFlow(c flowCase) (r flowResult) {
	names := hookNames(c.Depth)
	r.Log, r.Exits = []string{}, []string{}
	restoreS := cli.VerifSetStreams(ioutil.Discard, ioutil.Discard)
	restoreE := cli.VerifSetExiter(func(code int) {
		if h := hookOfCode(code); h >= 0 && h < len(names) {
			r.Exits = append(r.Exits, names[h])
		} else {
			r.Exits = append(r.Exits, fmt.Sprintf("foreign status %d", code))
		}
		panic(exitSentinel{code})
	})
	defer restoreS()
	defer restoreE()
	raised := map[string]interface{}{}
	app := buildFlowApp(c, &r.Log, raised)
	func() {
		defer func() {
			v := recover()
			switch x := v.(type) {
			case nil:
				r.Fin = "returned"
			case exitSentinel:
				if h := hookOfCode(x.code); h >= 0 && h < len(names) {
					r.Fin, r.By = "exited", names[h]
				} else {
					r.Fin, r.By = "exited", fmt.Sprintf("foreign status %d", x.code)
				}
			case *hookPanic:
				r.Fin, r.By = "panic", x.by
				r.Same = raised[x.by] == x
			case *hookErr:
				r.Fin, r.By = "panic", x.by
				r.Same = raised[x.by] == x
			case runtime.Error:
				if h := hookOfRuntimeError(x); h >= 0 && h < len(names) {
					r.Fin, r.By = "panic", names[h]
					r.Same = raised[r.By] == "runtime"
				} else {
					r.Fin, r.By = "panic", fmt.Sprintf("foreign value %v", x)
				}
			case string:
				r.Fin, r.By = "panic", strings.TrimPrefix(x, "P:")
				r.Same = raised[r.By] == x
			default:
				r.Fin, r.By = "panic", fmt.Sprintf("foreign value %v", x)
			}
		}()
		if err := app.Run(flowArgs(c)); err != nil {
			r.Err = err.Error()
		}
	}()
	return
}
